#!/bin/bash
# tools/sweep_seeds.sh  -- runs every seeded change (seeded/<id>[-rN]/patch.diff) against the quick check of the
# property it was written for, 4 at a time; results in work/sweep-seeds.log
ROOT="$(cd "$(dirname "$0")/.." && pwd)"
mkdir -p "$ROOT/work"
LOG="$ROOT/work/sweep-seeds.log"; : > "$LOG"
i=0
for d in "$ROOT"/seeded/*/; do
	id="$(basename "$d")"; prop="${id%%-*}"
	[ -f "$d/patch.diff" ] || continue
	pf="$d/patch.diff"; [ -f "$d/patch-rebased.diff" ] && pf="$d/patch-rebased.diff"   # re-expressed on top of a later fix: commit
	slot=$((i % 4)); i=$((i+1))
	( SCRATCH="/tmp/hlseedsweep$slot" RUN_REPO_TESTS=0 "$ROOT/tools/sensitivity.sh" "$pf" "$prop" 2>&1 | sed "s/^patch-rebased.diff/$id/; s/^patch.diff/$id/" >> "$LOG" ) &
	if [ $((i % 4)) -eq 0 ]; then wait; fi
done
wait
for s in 0 1 2 3; do rm -rf "/tmp/hlseedsweep$s" "/tmp/hlseedsweep$s-target"; done
sort "$LOG"
