#!/bin/bash
# tools/sensitivity.sh <patch-file> <PROP> [<PROP>...]   (env: RUN_REPO_TESTS=1 to also run the repo's own suite on the mutant)
# Applies one patch to a scratch copy of /repo, rebuilds the harness against that copy
# (cargo `paths` override) and runs the quick check of each property.  Prints one line per
# property: CAUGHT (exit 1 with a VIOLATION line), MISSED (exit 0) or INCONCLUSIVE (exit 2).
# Everything lives under $SCRATCH (default /tmp/hlmut) and is removed afterwards, except the
# shared build cache $SCRATCH-target, which the caller removes when the sweep is over.
set -u
PATCH="$(readlink -f "$1")"; shift
ROOT="$(cd "$(dirname "$0")/.." && pwd)"
SCRATCH="${SCRATCH:-/tmp/hlmut}"
TARGET="${SCRATCH}-target"
rm -rf "$SCRATCH"; mkdir -p "$SCRATCH/repo" "$SCRATCH/verif/evidence" "$SCRATCH/verif/replays"
rsync -a --exclude target --exclude .git /repo/ "$SCRATCH/repo/"
if ! (cd "$SCRATCH/repo" && patch -p1 --quiet < "$PATCH"); then echo "PATCH-FAILED $PATCH"; rm -rf "$SCRATCH"; exit 3; fi
cp "$ROOT/known_findings.json" "$ROOT/properties.jsonl" "$SCRATCH/verif/"
cp -r "$ROOT/replays/known" "$ROOT/replays/regress" "$SCRATCH/verif/replays/" 2>/dev/null
name="$(basename "$PATCH" .patch)"
if [ "${RUN_REPO_TESTS:-0}" = 1 ]; then
	if (cd "$SCRATCH/repo" && CARGO_TARGET_DIR="$TARGET-repo" cargo test --workspace --no-fail-fast --offline >"$SCRATCH/repotest.log" 2>&1); then
		echo "$name repo-tests: pass"
	else
		echo "$name repo-tests: FAIL (mutant is not test-passing)"; grep -E "^test .* FAILED|error" "$SCRATCH/repotest.log" | head -5
	fi
fi
cd "$ROOT/harness"
if ! CARGO_NET_OFFLINE=true cargo build --release --offline --config "paths=[\"$SCRATCH/repo\"]" --target-dir "$TARGET" >"$SCRATCH/build.log" 2>&1; then
	echo "$name BUILD-FAILED"; tail -5 "$SCRATCH/build.log"; rm -rf "$SCRATCH"; exit 3
fi
for P in "$@"; do
	out="$(VERIF_ROOT="$SCRATCH/verif" HLV_REPO="$SCRATCH/repo" "$TARGET/release/hlv" check "$P" 2>&1)"; code=$?
	case $code in
		1) echo "$name $P CAUGHT: $(echo "$out" | grep -A1 '^VIOLATION' | sed -n 2p | cut -c1-200)";;
		0) echo "$name $P MISSED";;
		*) echo "$name $P INCONCLUSIVE($code): $(echo "$out" | tail -2 | tr '\n' ' ' | cut -c1-200)";;
	esac
done
if [ -n "${KEEP_REPLAYS:-}" ]; then mkdir -p "$KEEP_REPLAYS"; cp "$SCRATCH"/verif/replays/*.json "$KEEP_REPLAYS"/ 2>/dev/null; fi
rm -rf "$SCRATCH"
