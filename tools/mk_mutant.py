#!/usr/bin/env python3
"""tools/mk_mutant.py NAME 'PROPS (space separated, or none)' FILE OLD NEW [FILE OLD NEW ...]
Creates tools/mutants/NAME.patch (unified diff against /repo) by exact string replacement."""
import sys, os, difflib
root = os.path.dirname(os.path.dirname(os.path.abspath(__file__)))
name, props = sys.argv[1], sys.argv[2]
args = sys.argv[3:]
out = [f"# expect: {props}\n"]
for i in range(0, len(args), 3):
    f, old, new = args[i], args[i+1], args[i+2]
    old = old.encode().decode('unicode_escape'); new = new.encode().decode('unicode_escape')
    src = open(os.path.join('/repo', f)).read()
    if src.count(old) != 1:
        sys.exit(f"{name}: pattern occurs {src.count(old)} times in {f}")
    dst = src.replace(old, new)
    out += list(difflib.unified_diff(src.splitlines(True), dst.splitlines(True), 'a/'+f, 'b/'+f))
open(os.path.join(root, 'tools/mutants', name + '.patch'), 'w').write(''.join(out))
print("wrote", name)
