#!/bin/bash
# tools/process_seed.sh <ID> <round> <worktree> [PROP...]  -- confirm a seeded change (run-time or compile-time
# demonstration, whichever the worktree contains), store it as seeded/<ID>-r<round>, run the quick checks of the
# listed properties (default: <ID>) against it.  SCRATCH may be set to run several in parallel.
ID="$1"; R="$2"; WT="$3"; shift 3
ROOT="$(cd "$(dirname "$0")/.." && pwd)"
PROPS="${*:-$ID}"
NAME="$ID-r$R"
if [ -f "$WT/examples/seed_demo.rs" ]; then
	SEED_NAME="$NAME" "$ROOT/tools/confirm_seed_compile.sh" "$ID" "$WT" 2>&1 | tail -1
else
	SEED_NAME="$NAME" "$ROOT/tools/confirm_seed.sh" "$ID" "$WT" 2>&1 | tail -1
fi
SCRATCH="${SCRATCH:-/tmp/hlmut-$NAME}" RUN_REPO_TESTS=0 "$ROOT/tools/sensitivity.sh" "$ROOT/seeded/$NAME/patch.diff" $PROPS 2>&1 | sed "s/^patch.diff/$NAME/"
rm -rf "${SCRATCH:-/tmp/hlmut-$NAME}-target"
