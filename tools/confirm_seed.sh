#!/bin/bash
# tools/confirm_seed.sh <ID> <worktree>  -- confirm a seeded change ourselves and store it under seeded/<ID>/
# 1. repo suite (without the demo) passes with the change  2. demo fails with the change  3. demo passes without it
ID="$1"; WT="$2"; ROOT="$(cd "$(dirname "$0")/.." && pwd)"
OUT="$ROOT/seeded/${SEED_NAME:-$ID}"; mkdir -p "$OUT"
cd "$WT" || exit 2
git diff -- src > "$OUT/patch.diff"
cp tests/seed_demo.rs "$OUT/seed_demo.rs"; cp SEED_NOTES.md "$OUT/SEED_NOTES.md" 2>/dev/null
mv tests/seed_demo.rs /tmp/seed_demo_$ID.rs
suite=$(cargo test --workspace --no-fail-fast --offline 2>&1 | grep -E "^test result" | awk '{p+=$4; f+=$6} END {print p" passed "f" failed"}')
mv /tmp/seed_demo_$ID.rs tests/seed_demo.rs
with=$(timeout 600 cargo test --offline --test seed_demo 2>&1 | grep -E "^test result" | tail -1)
git apply -R "$OUT/patch.diff"
without=$(timeout 600 cargo test --offline --test seed_demo 2>&1 | grep -E "^test result" | tail -1)
git apply "$OUT/patch.diff"
echo "$ID suite-with-change: $suite | demo-with-change: $with | demo-without: $without"
python3 - "$OUT" "$ID" "$suite" "$with" "$without" <<'PY'
import json, sys
out, pid, suite, w, wo = sys.argv[1:6]
json.dump({"breaks_property": pid, "confirmed_by_us": {"repo_suite_with_change": suite, "demo_with_change": w, "demo_without_change": wo,
  "how": "tools/confirm_seed.sh: cargo test --workspace --no-fail-fast --offline in the scratch worktree with the demo moved aside; cargo test --test seed_demo with the patch applied and after git apply -R"}},
  open(out + "/meta.json", "w"), indent=1)
PY
