#!/usr/bin/env python3
"""Regenerates /verif/MANIFEST.json (kept in git; run after changing the check list)."""
import json, os
ROOT = os.path.dirname(os.path.dirname(os.path.abspath(__file__)))
fix_commits = ["4dc4a82", "76fa0f3", "c109061", "6252e1d", "a1ddfb0", "ed5d6fe", "f436aa0", "4e784a0", "b2672c6", "bcbaea5", "49a7aa0"]
seq = "SEQ engine: model-based PBT over API histories (proptest byte vectors -> decoder -> step interpreter on real happylock code instantiated with auditing raw locks)"
conc = "CONC engine: generated thread programs x generated schedules (harness-owned baton scheduler at raw-lock-operation granularity, both RwLock wake policies)"
types = "TYPES engine: grammar-generated client programs, rustc verdict on twin/offending pairs, auto traits differential against std"
checks = {
 "C01": ("conc+types", "exploration", "generated programs x generated schedules, deadlock / self-wait / no-progress oracles (property-based, schedule fuzzing)",
   "Deadlock freedom is a for-all-schedules, for-all-programs claim; the check explores tens of thousands of (program, schedule) pairs per run with an exact deadlock oracle (no timers). It cannot prove absence; it reaches the arrangements and interleavings the suite never runs.",
   "Schedules are explored at raw-lock-operation granularity with one logical thread running at a time; the verification raw locks are the ground truth for 'waits' and 'holds'; bounded programs (1-4 threads, 1-3 acquisitions, 2-5 leaves). The single-thread clause about collections changed after the duplicate check is decided at compile time by 14 generated twin/offending programs (TYPES engine)."),
 "C02": ("seq+conc+types", "exploration", "property-based: held-at-use, routing, shadow-version continuity oracles over generated shapes and schedules",
   "Mutual exclusion and per-position routing are checked at every dereference against the owner table (independent of schedule luck) over all collection shapes; CONC adds adversarial switches inside sections.",
   "Owner table of the verification raw locks is the ground truth; payload ids identify leaves; one logical thread runs at a time."),
 "C03": ("seq+conc+types", "exploration", "model-based stateful PBT over acquire/release histories; oracle at first raw op of every acquisition and at every key hand-back",
   "Total allocation quantifies over all API compositions incl. error paths; generated histories with an exact held-set oracle reach those compositions.",
   "Sequential histories (1-2 threads, <= 14 steps); held-set read from the auditing raw locks."),
 "C04": ("seq+conc+types", "exploration", "model-based PBT: held multiset vs. leaf multiset of the spec after every acquisition, try_* never waits, closure count",
   "All-or-nothing is checked after every generated acquisition over kinds x containers x nestings x pre-held patterns, including the rollback of every failing position.",
   "Reference semantics of a collection spec (flattened leaves) is the harness's own model; phantom holders emulate other threads in quiescent states."),
 "C05": ("seq+conc+types", "exploration", "release audit in the raw locks (foreign / double / wrong-mode / not-held), release parity per call, all-free-at-end",
   "A wrong release is silent with parking_lot; the auditing raw lock makes every release checkable on every generated path.",
   "Audit compares every raw unlock with the owner table; leaked (mem::forget) holds are tracked by the model."),
 "C06": ("seq+types", "exploration", "model-based stateful PBT: ThreadKey::get() probed after every step and inside every closure against a key-alive model",
   "One-key-per-thread is a property of every history of key-carrying values; a reference model plus generated histories found a real defect at history length 3.",
   "Model of 'alive' follows the property text; two logical threads at step granularity."),
 "C07": ("seq+types", "exploration", "differential against a reference duplicate model over generated member lists (random + exhaustive <= 5 over 4 leaves); rustc verdicts for unchecked ctors",
   "Exactness is a for-all-inputs claim; the exhaustive slice is complete for lists <= 5 over 4 leaves, the random part covers nesting and wrappers; the compile-time half is decided by generated twin/offending programs.",
   "Reference model: a unit is a leaf or an owned collection; zero-sized owned collections sharing an address are not generated."),
 "C08": ("seq+conc+types", "exploration", "metamorphic: blocking acquisition sequences of differently arranged sorting collections must agree pairwise (acyclic precedence), be stable, keep owned groups contiguous",
   "Acquisition order is invisible with real locks; the tracing raw lock exposes it and the metamorphic relation needs no knowledge of the actual sort key.",
   "Only relative order is asserted (not address order); sequences come from the trace of blocking raw acquisitions."),
 "C09": ("conc+seq+types", "exploration", "generated contenders x schedules; oracle: nothing held (outside the awaited lock's owned group) whenever a retrying call's blocking request is not grantable; completion under run-to-block",
   "Hold-and-wait depends on which member is contended when; the scheduler-owned exploration checks the condition at every blocking point.",
   "Retry depth bounded by the schedule prefix (<= 48 choices) then run-to-block; 'eventually completes' is checked as bounded liveness."),
 "C10": ("seq+conc+types", "exploration", "model-based stateful PBT with a 3-state poison model per wrapper (Clean / Poisoned / Unspecified)",
   "Poisoning is a product of hold kinds x panic points x clear x observers; the model is compared after every step and at every member position.",
   "A panic under a shared hold leaves the state unspecified (the property is one-directional there); histories never mem::forget a Poisonable guard."),
 "C11": ("seq+conc", "exploration", "panic injection at every kind of critical section; held-set / release-parity / key oracles; CONC: waiters proceed",
   "Panic points x kinds x key styles is a product the suite does not span; the injected private payload shows propagation, the audit shows exactly-once release.",
   "Panics are injected as a private payload through user code positions (guard alive / inside closure)."),
 "C12": ("seq", "fault_enumeration", "fault enumeration: one-shot panic at EVERY raw-operation index of generated base cases + persistent evil-lock fault sets; trace oracle",
   "Which lock leaks depends on the index of the failing raw operation relative to the algorithm's bookkeeping, so every index is a separate case; enumeration per base case is complete, base cases are generated.",
   "Fault model: a faulted raw operation has no effect on lock state (as the repository's evil_* locks)."),
 "C13": ("seq+types", "exploration", "differential against a reference table (try outcome iff grantable) with phantom holders, state-unchanged oracle, a try that waits or releases a foreign hold is a finding",
   "Exactness over every held pattern / mode / shape; the reference is three lines of table lookup.",
   "Quiescent states only (phantom holders never move); nothing runs concurrently."),
 "C14": ("types+seq+conc", "exploration", "grammar-generated twin/offending program pairs, rustc as oracle, error location must be the marked region; run-time half: model-based PBT histories of C06 / C03 read for a key usable during a hold",
   "'Must not compile' cannot be a unit test; generated pairs over every subject shape make each escape route a family of cases, the twin guards against vacuous rejections.",
   "rustc's verdict on a library crate = 'safe Rust accepts this'; covers the escape routes the grammar can write (K1-K11)."),
 "C15": ("types+seq+conc", "exploration", "twin/offending pairs for D1-D7; auto traits decided differentially against std over positions x payloads x {Send, Sync}; run-time half: the histories and programs of C02 read as data reached without a live hold",
   "The differential against std widens the auto-trait part beyond a hand-written list (it found two wrong bounds); D1-D7 as for C14.",
   "std's bounds are taken as the reference strictness; raw lock types are the default parking_lot ones."),
 "C16": ("drops+seq+conc", "exploration", "drop-counting payloads + value round-trip oracle over generated construction/destruction plans; quarantine allocator turns double frees into findings; thorough: the same plans under libFuzzer with AddressSanitizer / LeakSanitizer",
   "Drop-exactly-once through the boxed collection's raw-pointer ownership is invisible to value assertions; generated plans cover every ctor/dtor path x container x leaf.",
   "Drop table per scenario; frees are quarantined during a scenario so a double free is recorded instead of corrupting the heap."),
 "C17": ("seq+conc", "exploration", "model-based PBT: non-acquiring operations under every hold pattern incl. the caller's own guard / closure; no-wait + owner-table-unchanged + no-foreign-release oracle",
   "A transient try/unlock or a would-be block is invisible with parking_lot unless it hangs; the auditing lock sees both (it found Debug unlocking a held Mutex).",
   "Transient try+unlock pairs inside Debug are allowed when they restore the state."),
}
m = {
 "version": 1,
 "setup_cmd": "cd /verif/harness && CARGO_NET_OFFLINE=true cargo build --release --offline",
 "hooks": {
   "guard": "none",
   "enable": "no source hooks: all instrumentation enters through the public raw-lock type parameter R of happylock::mutex::Mutex<T,R> / happylock::rwlock::RwLock<T,R> and through the public API; checks build /repo as it is",
   "baseline_off_cmd": "cd /repo && cargo test --workspace --no-fail-fast --offline",
   "source_commits": fix_commits,
   "add_only": True,
 },
 "engines": [
   {"name": "seq", "path": "harness/src/{interp,engine,gen,world,exec,vlock}.rs", "serves_properties": ["C02","C03","C04","C05","C06","C07","C08","C09","C10","C11","C12","C13","C14","C15","C16","C17"], "kind_free_text": seq},
   {"name": "conc", "path": "harness/src/{exec,engine,gen}.rs", "serves_properties": ["C01","C02","C03","C04","C05","C08","C09","C10","C11","C14","C15","C16","C17"], "kind_free_text": conc},
   {"name": "types", "path": "harness/src/{tyeng,surface}.rs", "serves_properties": ["C01","C02","C03","C04","C05","C06","C07","C08","C09","C10","C13","C14","C15"], "kind_free_text": types + "; part of the families is generated from the public API of the tree under test (cargo rustdoc JSON): methods of hold types, constructors, key-less accessors"},
   {"name": "fuzz", "path": "fuzz/fuzz/fuzz_targets/{fuzz_seq,fuzz_conc,fuzz_eval}.rs, tools/fuzz.sh", "serves_properties": ["C01","C02","C03","C04","C05","C06","C07","C08","C09","C10","C11","C12","C13","C16","C17"], "kind_free_text": "libFuzzer (cargo-fuzz, ASan + LSan) over the same byte decoders, evaluators and oracles; thorough tier only, amplification; for C16 a reproduced sanitizer report is a violation (replay = the saved input)"},
   {"name": "drops", "path": "harness/src/{drops,quarantine}.rs", "serves_properties": ["C16"], "kind_free_text": "typed construction/destruction scenarios with drop-counting payloads"},
 ],
 "checks": [],
 "not_applicable": [],
 "notes": "source_commits are unguarded 'fix:' commits in /repo (genuine defects found by the checks), not hooks; see known_findings.json and DESIGN.md section 5.",
}
for pid in sorted(checks):
    eng, level, tech, text, note = checks[pid]
    m["checks"].append({
      "property_id": pid,
      "quick_cmd": f"./check {pid} --tier quick",
      "thorough_cmd": f"./check {pid} --tier thorough",
      "evidence_file": f"/verif/evidence/{pid}.json",
      "replay_cmd_template": "./check --replay {path}",
      "engine": eng,
      "level_claimed": {"category": level, "text": text, "design_ref": f"DESIGN.md section 4, {pid}"},
      "level_note": note,
      "technique": tech,
    })
json.dump(m, open(os.path.join(ROOT, "MANIFEST.json"), "w"), indent=1)
print("wrote MANIFEST.json with", len(m["checks"]), "checks")
