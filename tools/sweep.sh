#!/bin/bash
# tools/sweep.sh [pattern]  -- runs every mutant in tools/mutants (matching pattern) against the
# properties named in its "# expect:" header, 4 at a time; appends results to work/sweep.log
ROOT="$(cd "$(dirname "$0")/.." && pwd)"
PAT="${1:-}"
mkdir -p "$ROOT/work"
LOG="$ROOT/work/sweep.log"; : > "$LOG"
run_one() {
	p="$1"; slot="$2"
	props="$(sed -n 's/^# expect: //p' "$p")"
	[ "$props" = "none" ] && props="C01 C04 C05 C08 C13"
	SCRATCH="/tmp/hlmut$slot" RUN_REPO_TESTS="${RUN_REPO_TESTS:-1}" "$ROOT/tools/sensitivity.sh" "$p" $props
}
export -f run_one; export ROOT
i=0
for p in "$ROOT"/tools/mutants/*${PAT}*.patch; do
	slot=$((i % 4)); i=$((i+1))
	( run_one "$p" "$slot" >> "$LOG" 2>&1 ) &
	if [ $((i % 4)) -eq 0 ]; then wait; fi
done
wait
for s in 0 1 2 3; do rm -rf "/tmp/hlmut$s" "/tmp/hlmut$s-target" "/tmp/hlmut$s-target-repo"; done
sort "$LOG"
