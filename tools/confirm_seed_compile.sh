#!/bin/bash
# tools/confirm_seed_compile.sh <ID> <worktree>  -- for type-system holes: the demo (examples/seed_demo.rs) must compile
# with the change and be rejected without it; the repo suite must pass with the change.
ID="$1"; WT="$2"; ROOT="$(cd "$(dirname "$0")/.." && pwd)"
OUT="$ROOT/seeded/${SEED_NAME:-$ID}"; mkdir -p "$OUT"
cd "$WT" || exit 2
git diff -- src > "$OUT/patch.diff"
cp examples/seed_demo.rs "$OUT/seed_demo.rs"; cp SEED_NOTES.md "$OUT/SEED_NOTES.md" 2>/dev/null
mv examples/seed_demo.rs /tmp/seed_demo_$ID.rs
suite=$(cargo test --workspace --no-fail-fast --offline 2>&1 | grep -E "^test result" | awk '{p+=$4; f+=$6} END {print p" passed "f" failed"}')
mv /tmp/seed_demo_$ID.rs examples/seed_demo.rs
if cargo build --offline --example seed_demo >/tmp/seedb_$ID.log 2>&1; then with="compiles"; else with="REJECTED"; fi
git apply -R "$OUT/patch.diff"
if cargo build --offline --example seed_demo >/tmp/seedb2_$ID.log 2>&1; then without="compiles"; else without="rejected ($(grep -o 'error\[E[0-9]*\]' /tmp/seedb2_$ID.log | sort -u | tr '\n' ' '))"; fi
git apply "$OUT/patch.diff"
echo "$ID suite-with-change: $suite | demo-with-change: $with | demo-without: $without"
python3 - "$OUT" "$ID" "$suite" "$with" "$without" <<'PY'
import json, sys
out, pid, suite, w, wo = sys.argv[1:6]
json.dump({"breaks_property": pid, "confirmed_by_us": {"repo_suite_with_change": suite, "demo_with_change": w, "demo_without_change": wo,
  "how": "tools/confirm_seed_compile.sh: cargo test --workspace --no-fail-fast --offline in the scratch worktree with the demo moved aside; cargo build --example seed_demo with the patch applied and after git apply -R"}},
  open(out + "/meta.json", "w"), indent=1)
PY
