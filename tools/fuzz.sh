#!/bin/bash
# tools/fuzz.sh <PROP> <seq|conc|eval> [runs-per-job] [jobs]
# Coverage-guided amplification (libFuzzer via cargo-fuzz, ASan on) of the property's SEQ / CONC campaign, or
# (engine "eval") of its per-case evaluator (C07 constructor checks, C12 fault enumeration, C16 drop plans).
# exit 0 = no violation in the campaign, 1 = VIOLATION (reproduced by `hlv replay`, or for C16 a sanitizer
# report reproduced from the saved input), 2 = could not run / sanitizer report outside the property's oracle.
# Writes a summary line to stdout and a JSON summary to work/fuzz-<PROP>-<engine>.json.
PROP="$1"; ENG="$2"; RUNS="${3:-40000}"; JOBS="${4:-8}"
ROOT="$(cd "$(dirname "$0")/.." && pwd)"
export VERIF_ROOT="$ROOT" VERIF_PROP="$PROP" CARGO_NET_OFFLINE=true
SEED="${VERIF_SEED:-1}"; [ "$SEED" = 0 ] && SEED=1
CORPUS="$ROOT/work/corpus-$PROP-$ENG"; ART="$ROOT/work/artifacts-$PROP-$ENG/"
rm -rf "$CORPUS" "$ART"; mkdir -p "$CORPUS" "$ART" "$ROOT/work/fuzzlogs"
# seed corpus: a few pseudo-random files (deterministic) so that libFuzzer does not start from length 0
python3 - "$CORPUS" "$SEED" <<'PY'
import sys, random
d, seed = sys.argv[1], int(sys.argv[2])
r = random.Random(seed)
for i in range(24):
    open(f"{d}/seed{i}", "wb").write(bytes(r.randrange(256) for _ in range(r.randrange(40, 220))))
PY
cd "$ROOT/fuzz" || exit 2
if ! cargo +nightly fuzz build "fuzz_$ENG" >"$ROOT/work/fuzzlogs/build-$ENG.log" 2>&1; then
	echo "FUZZ $PROP/$ENG: build failed (see work/fuzzlogs/build-$ENG.log)"; exit 2
fi
BIN="$(ls -t "$ROOT"/fuzz/fuzz/target/*/release/fuzz_$ENG 2>/dev/null | head -1)"
[ -x "$BIN" ] || { echo "FUZZ $PROP/$ENG: no binary"; exit 2; }
before="$(ls "$ROOT/replays" 2>/dev/null | grep -c "^$PROP-fuzz-")"
cd "$ROOT/work/fuzzlogs" || exit 2
rm -f fuzz-*.log
MAXLEN=260
if [ "$ENG" = eval ]; then case "$PROP" in C16) MAXLEN=40;; C12) MAXLEN=160;; C07) MAXLEN=200;; esac; fi
# histories of the SEQ / CONC profiles leak on purpose (mem::forget of guards and keys is part of the
# vocabulary): LeakSanitizer is only meaningful for the C16 drop plans
LEAKS=0; [ "$PROP" = C16 ] && LEAKS=1
"$BIN" "$CORPUS" -artifact_prefix="$ART" -runs="$RUNS" -seed="$SEED" -len_control=0 -max_len=$MAXLEN -detect_leaks=$LEAKS -jobs="$JOBS" -workers="$JOBS" -print_final_stats=1 >"$ROOT/work/fuzzlogs/driver-$PROP-$ENG.log" 2>&1
execs=$(grep -h "stat::number_of_executed_units" fuzz-*.log 2>/dev/null | awk '{s+=$2} END {print s+0}')
cov=$(grep -h "cov:" fuzz-*.log 2>/dev/null | sed -n 's/.*cov: \([0-9]*\).*/\1/p' | sort -n | tail -1)
corpus=$(ls "$CORPUS" | wc -l)
new="$(ls -t "$ROOT/replays" 2>/dev/null | grep "^$PROP-fuzz-" | head -n 5)"
after="$(ls "$ROOT/replays" 2>/dev/null | grep -c "^$PROP-fuzz-")"
code=0
if [ "$after" -gt "$before" ]; then
	for f in $new; do
		if "$ROOT/harness/target/release/hlv" replay "$ROOT/replays/$f" | grep -q "^VIOLATION"; then
			echo "VIOLATION property=$PROP replay=$ROOT/replays/$f"; code=1; break
		fi
	done
fi
# sanitizer reports (the target did not get to write a replay file): reproduce from the saved input
if [ $code -eq 0 ] && [ "$after" -eq "$before" ]; then
	for a in "$ART"crash-* "$ART"leak-*; do
		[ -f "$a" ] || continue
		if "$BIN" "$a" -detect_leaks=$LEAKS >"$ROOT/work/fuzzlogs/repro-$PROP-$ENG.log" 2>&1; then continue; fi
		summary="$(grep -m1 -E "^SUMMARY: |ERROR: (Address|Leak)Sanitizer" "$ROOT/work/fuzzlogs/repro-$PROP-$ENG.log" | cut -c1-200)"
		if [ "$PROP" = C16 ]; then
			rp="$ROOT/replays/$PROP-fuzz-sanitizer-$(basename "$a" | cut -c1-24).json"
			python3 - "$a" "$rp" "$PROP" "$ENG" "$summary" <<'PY'
import json, sys
a, rp, prop, eng, summary = sys.argv[1:6]
json.dump({"property": prop, "signature": "sanitizer|" + summary.split(":")[1].strip() if ":" in summary else "sanitizer", "detail": summary,
           "found_by": "libFuzzer + AddressSanitizer", "case": {"engine": "fuzz-artifact", "target": "fuzz_" + eng, "bytes": list(open(a, "rb").read())}}, open(rp, "w"), indent=1)
PY
			echo "VIOLATION property=$PROP replay=$rp"; echo "  $summary"; code=1
		else
			echo "INCONCLUSIVE: sanitizer report while fuzzing $PROP/$ENG, outside the property's oracle: $summary (input kept at $a)"; code=2
		fi
		break
	done
	for a in "$ART"oom-* "$ART"timeout-*; do
		[ -f "$a" ] || continue
		echo "INCONCLUSIVE: libFuzzer stopped on $(basename "$a") (resource limit, not a verdict)"; [ $code -eq 0 ] && code=2; break
	done
fi
viol=0; [ $code -eq 1 ] && viol=1
inconc=false; [ $code -eq 2 ] && inconc=true
echo "{\"property\":\"$PROP\",\"engine\":\"$ENG\",\"executions\":${execs:-0},\"edge_coverage\":${cov:-0},\"corpus_files\":$corpus,\"runs_per_job\":$RUNS,\"jobs\":$JOBS,\"seed\":$SEED,\"violation\":$viol,\"inconclusive\":$inconc}" > "$ROOT/work/fuzz-$PROP-$ENG.json"
echo "FUZZ $PROP/$ENG: executions=${execs:-0} cov=${cov:-0} corpus=$corpus violation=$viol"
exit $code
