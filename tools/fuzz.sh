#!/bin/bash
# tools/fuzz.sh <PROP> <seq|conc> [runs-per-job] [jobs]
# Coverage-guided amplification (libFuzzer via cargo-fuzz, ASan on) of the property's SEQ / CONC campaign.
# exit 0 = no violation in the campaign, 1 = VIOLATION (reproduced by `hlv replay`), 2 = could not run.
# Writes a summary line to stdout and a JSON summary to work/fuzz-<PROP>-<engine>.json.
PROP="$1"; ENG="$2"; RUNS="${3:-40000}"; JOBS="${4:-8}"
ROOT="$(cd "$(dirname "$0")/.." && pwd)"
export VERIF_ROOT="$ROOT" VERIF_PROP="$PROP" CARGO_NET_OFFLINE=true
SEED="${VERIF_SEED:-1}"; [ "$SEED" = 0 ] && SEED=1
CORPUS="$ROOT/work/corpus-$PROP-$ENG"; ART="$ROOT/work/artifacts-$PROP-$ENG/"
rm -rf "$CORPUS" "$ART"; mkdir -p "$CORPUS" "$ART" "$ROOT/work/fuzzlogs"
# seed corpus: a few pseudo-random files (deterministic) so that libFuzzer does not start from length 0
python3 - "$CORPUS" "$SEED" <<'PY'
import sys, random
d, seed = sys.argv[1], int(sys.argv[2])
r = random.Random(seed)
for i in range(24):
    open(f"{d}/seed{i}", "wb").write(bytes(r.randrange(256) for _ in range(r.randrange(40, 220))))
PY
cd "$ROOT/fuzz" || exit 2
if ! cargo +nightly fuzz build "fuzz_$ENG" >"$ROOT/work/fuzzlogs/build-$ENG.log" 2>&1; then
	echo "FUZZ $PROP/$ENG: build failed (see work/fuzzlogs/build-$ENG.log)"; exit 2
fi
BIN="$(ls -t "$ROOT"/fuzz/fuzz/target/*/release/fuzz_$ENG 2>/dev/null | head -1)"
[ -x "$BIN" ] || { echo "FUZZ $PROP/$ENG: no binary"; exit 2; }
before="$(ls "$ROOT/replays" 2>/dev/null | grep -c "^$PROP-fuzz-")"
cd "$ROOT/work/fuzzlogs" || exit 2
rm -f fuzz-*.log
"$BIN" "$CORPUS" -artifact_prefix="$ART" -runs="$RUNS" -seed="$SEED" -len_control=0 -max_len=260 -jobs="$JOBS" -workers="$JOBS" -print_final_stats=1 >"$ROOT/work/fuzzlogs/driver-$PROP-$ENG.log" 2>&1
execs=$(grep -h "stat::number_of_executed_units" fuzz-*.log 2>/dev/null | awk '{s+=$2} END {print s+0}')
cov=$(grep -h "cov:" fuzz-*.log 2>/dev/null | sed -n 's/.*cov: \([0-9]*\).*/\1/p' | sort -n | tail -1)
corpus=$(ls "$CORPUS" | wc -l)
new="$(ls -t "$ROOT/replays" 2>/dev/null | grep "^$PROP-fuzz-" | head -n 5)"
after="$(ls "$ROOT/replays" 2>/dev/null | grep -c "^$PROP-fuzz-")"
code=0
if [ "$after" -gt "$before" ]; then
	for f in $new; do
		if "$ROOT/harness/target/release/hlv" replay "$ROOT/replays/$f" | grep -q "^VIOLATION"; then
			echo "VIOLATION property=$PROP replay=$ROOT/replays/$f"; code=1; break
		fi
	done
fi
echo "{\"property\":\"$PROP\",\"engine\":\"$ENG\",\"executions\":${execs:-0},\"edge_coverage\":${cov:-0},\"corpus_files\":$corpus,\"runs_per_job\":$RUNS,\"jobs\":$JOBS,\"seed\":$SEED,\"violation\":$code}" > "$ROOT/work/fuzz-$PROP-$ENG.json"
echo "FUZZ $PROP/$ENG: executions=${execs:-0} cov=${cov:-0} corpus=$corpus violation=$code"
exit $code
