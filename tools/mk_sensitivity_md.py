#!/usr/bin/env python3
"""Builds tools/sensitivity.md from sweep logs (work/sweep*.log) and seeded/*/meta.json."""
import glob, json, os, re, collections
root = os.path.dirname(os.path.dirname(os.path.abspath(__file__)))
rows = collections.OrderedDict()
for log in sorted(glob.glob(os.path.join(root, "work", "sweep*.log"))):
    if os.path.basename(log).startswith("sweep-seeds"):
        continue
    for line in open(log, errors="replace"):
        m = re.match(r"^(\S+) (repo-tests): (\S+)", line)
        if m:
            rows.setdefault(m.group(1), {"tests": "?", "res": {}})["tests"] = m.group(3)
            continue
        m = re.match(r"^(\S+) (C\d\d) (CAUGHT|MISSED|INCONCLUSIVE\S*):?\s*(.*)", line)
        if m:
            sig = m.group(4).split(" :: ")[0].strip()
            rows.setdefault(m.group(1), {"tests": "?", "res": {}})["res"][m.group(2)] = (m.group(3), sig)
out = ["# Sensitivity results", "",
       "Produced by `tools/sweep.sh` (hand-written mutants, `tools/mutants/*.patch`) and `tools/sensitivity.sh seeded/<id>/patch.diff` (changes written by independent sub-agents).",
       "Each mutant is applied to a scratch copy of /repo; `repo tests` says whether the repository's own 192 tests + doctests still pass on the mutant; then the quick check of each listed property runs against it.",
       "", "## Hand-written mutants", "", "| mutant | repo tests | expected | result |", "|---|---|---|---|"]
for name in sorted(rows):
    p = os.path.join(root, "tools", "mutants", name + ".patch")
    exp = "?"
    if os.path.exists(p):
        exp = open(p).readline().replace("# expect:", "").strip()
    res = "; ".join(f"{k} {v[0]}" + (f" (`{v[1][:90]}`)" if v[1] and v[0] == 'CAUGHT' else "") for k, v in sorted(rows[name]["res"].items()))
    out.append(f"| {name} | {rows[name]['tests']} | {exp} | {res} |")
out += ["", "`control-*` mutants keep every property true and must stay MISSED everywhere (negative control).", "",
        "## Seeded changes (sub-agents)", "", "| id | change | needs to manifest | history | last sweep of the property's own check (tools/sweep_seeds.sh) |", "|---|---|---|---|---|"]
last = {}
sl = os.path.join(root, "work", "sweep-seeds.log")
if os.path.exists(sl):
    for line in open(sl, errors="replace"):
        m = re.match(r"^(\S+) (C\d\d) (CAUGHT|MISSED|INCONCLUSIVE\S*):?\s*(.*)", line)
        if m:
            last[m.group(1)] = m.group(3) + (" (`" + m.group(4).split(" :: ")[0].strip()[:80] + "`)" if m.group(3) == "CAUGHT" else "")
for d in sorted(glob.glob(os.path.join(root, "seeded", "*"))):
    mp = os.path.join(d, "meta.json")
    if not os.path.exists(mp):
        continue
    m = json.load(open(mp))
    out.append(f"| {os.path.basename(d)} | {m.get('change','')} | {m.get('needs_to_manifest','')} | {m.get('checks_run_against_it','')} | {last.get(os.path.basename(d), '')} |")
open(os.path.join(root, "tools", "sensitivity.md"), "w").write("\n".join(out) + "\n")
print("wrote tools/sensitivity.md with", len(rows), "mutants")
