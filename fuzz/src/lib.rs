// cargo-fuzz wants a parent cargo project one level above fuzz/
