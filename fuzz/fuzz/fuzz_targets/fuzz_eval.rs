#![no_main]
//! Coverage-guided amplification of the campaigns that are not a plain SEQ / CONC
//! profile (C07 constructor checks, C12 fault enumeration, C16 drop plans): bytes ->
//! the same per-case evaluator as the proptest runner (decoder + engine + oracle).
//! The binary is built with AddressSanitizer: a double free, use after free or leak
//! inside the library stops the run with a sanitizer report (handled by tools/fuzz.sh).
use libfuzzer_sys::fuzz_target;
use std::sync::OnceLock;

use hlverif::props;
use hlverif::runner::KnownFindings;

struct Setup {
	prop: String,
	known: KnownFindings,
}

static SETUP: OnceLock<Setup> = OnceLock::new();

fn setup() -> &'static Setup {
	SETUP.get_or_init(|| {
		let prop = std::env::var("VERIF_PROP").unwrap_or_else(|_| "C16".into());
		assert!(props::fuzz_eval(&prop, &[]).is_some(), "VERIF_PROP has no evaluator campaign");
		Setup { prop, known: KnownFindings::load() }
	})
}

fuzz_target!(|data: &[u8]| {
	let s = setup();
	let Some(mut rep) = props::fuzz_eval(&s.prop, data) else { return };
	if rep.invalid || rep.inconclusive.is_some() {
		return;
	}
	for f in &rep.violations {
		let p = if f.prop == "PANIC" { s.prop.as_str() } else { f.prop };
		if s.known.matches(p, &f.sig).is_some() {
			continue;
		}
		let case = rep.replay.take().unwrap_or(serde_json::json!({"bytes": data}));
		let path = props::write_fuzz_replay(&s.prop, f, case);
		eprintln!("FUZZ-VIOLATION property={} replay={} :: {} :: {}", s.prop, path, f.sig, f.detail);
		std::process::abort();
	}
});
