#![no_main]
//! Coverage-guided amplification of the SEQ campaigns: bytes -> the same decoder
//! as the proptest runner -> SEQ engine -> the property's oracle.  The property is
//! chosen with VERIF_PROP.  A violation that is not a listed known finding writes a
//! replay file (same format as the proptest runner) and aborts.
use libfuzzer_sys::fuzz_target;
use std::sync::OnceLock;

use hlverif::gen::{gen_seq, Src};
use hlverif::props;
use hlverif::runner::KnownFindings;

struct Setup {
	prop: String,
	cfg: hlverif::gen::SeqCfg,
	opts: hlverif::interp::Opts,
	known: KnownFindings,
}

static SETUP: OnceLock<Setup> = OnceLock::new();

fn setup() -> &'static Setup {
	SETUP.get_or_init(|| {
		let prop = std::env::var("VERIF_PROP").unwrap_or_else(|_| "C04".into());
		let (cfg, opts) = props::seq_profile(&prop).expect("VERIF_PROP has no SEQ campaign");
		Setup { prop, cfg, opts, known: KnownFindings::load() }
	})
}

fuzz_target!(|data: &[u8]| {
	let s = setup();
	let case = gen_seq(&mut Src::new(data), &s.cfg);
	let r = hlverif::engine::run_seq(&case, s.opts);
	if r.invalid.is_some() || r.inconclusive.is_some() {
		return;
	}
	for f in props::seq_violations(&s.prop, &case, &r) {
		let p = if f.prop == "PANIC" { s.prop.as_str() } else { f.prop };
		if s.known.matches(p, &f.sig).is_some() {
			continue;
		}
		let path = props::write_fuzz_replay(&s.prop, &f, serde_json::json!({"engine": "seq", "opts": {"quiescent": s.opts.quiescent, "faults": s.opts.faults, "conc": s.opts.conc}, "case": case, "trace": r.trace}));
		eprintln!("FUZZ-VIOLATION property={} replay={} :: {} :: {}", s.prop, path, f.sig, f.detail);
		std::process::abort();
	}
});
