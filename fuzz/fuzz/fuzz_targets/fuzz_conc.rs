#![no_main]
//! Coverage-guided amplification of the CONC campaigns (programs x schedules).
use libfuzzer_sys::fuzz_target;
use std::sync::OnceLock;

use hlverif::gen::{gen_conc, Src};
use hlverif::props;
use hlverif::runner::KnownFindings;

struct Setup {
	prop: String,
	cfg: hlverif::gen::ConcCfg,
	known: KnownFindings,
}

static SETUP: OnceLock<Setup> = OnceLock::new();

fn setup() -> &'static Setup {
	SETUP.get_or_init(|| {
		let prop = std::env::var("VERIF_PROP").unwrap_or_else(|_| "C01".into());
		let cfg = props::conc_profile(&prop).expect("VERIF_PROP has no CONC campaign");
		Setup { prop, cfg, known: KnownFindings::load() }
	})
}

fuzz_target!(|data: &[u8]| {
	let s = setup();
	let case = gen_conc(&mut Src::new(data), &s.cfg);
	let opts = hlverif::interp::Opts { conc: true, ..Default::default() };
	let r = hlverif::engine::run_conc(&case, opts);
	if r.invalid.is_some() || r.inconclusive.is_some() {
		return;
	}
	for f in props::conc_violations(&s.prop, &case, &r) {
		let p = if f.prop == "PANIC" { s.prop.as_str() } else { f.prop };
		if s.known.matches(p, &f.sig).is_some() {
			continue;
		}
		let forced: Vec<u8> = r.taken.iter().filter(|(_, n)| *n > 1).map(|(i, _)| *i).collect();
		let mut c = case.clone();
		c.forced = Some(forced);
		let path = props::write_fuzz_replay(&s.prop, &f, serde_json::json!({"engine": "conc", "opts": {"conc": true}, "case": c, "trace": r.trace}));
		eprintln!("FUZZ-VIOLATION property={} replay={} :: {} :: {}", s.prop, path, f.sig, f.detail);
		std::process::abort();
	}
});
