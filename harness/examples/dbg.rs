use hlverif::gen::*;
use hlverif::props::*;
use hlverif::engine::RunResult;
use hlverif::case::ConcCase;
use std::time::Instant;
fn main() {
	let tcfg = tiny_conc_cfg();
	let nontrivial = |_c: &ConcCase, r: &RunResult| r.waited;
	let e = ConcEval { prop: "C01", nontrivial: &nontrivial, extra: None };
	let mut x: u64 = 88172645463325252;
	let mut worst: Vec<(f64, u64, String)> = Vec::new();
	let t_all = Instant::now();
	let mut total_runs = 0u64;
	for i in 0..600 {
		let len = (x % 120) as usize;
		let mut bytes = vec![0u8; len];
		for b in bytes.iter_mut() { x ^= x << 13; x ^= x >> 7; x ^= x << 17; *b = (x >> 24) as u8; }
		x ^= x << 13; x ^= x >> 7; x ^= x << 17;
		let case = gen_conc(&mut Src::new(&bytes), &tcfg);
		let t = Instant::now();
		let rep = exhaust_program(&e, &case, 3000, false);
		let dt = t.elapsed().as_secs_f64();
		total_runs += rep.extra_evals + 1;
		if dt > 0.5 { println!("program {i}: {:.2}s runs={} labels={:?}", dt, rep.extra_evals + 1, rep.labels); worst.push((dt, rep.extra_evals, format!("{:?}", case.programs))); }
	}
	println!("sequential: {} runs in {:.1}s", total_runs, t_all.elapsed().as_secs_f64());
	worst.sort_by(|a, b| b.0.partial_cmp(&a.0).unwrap());
	for w in worst.iter().take(3) { println!("{:.2}s runs={} {}", w.0, w.1, &w.2[..w.2.len().min(600)]); }
}
