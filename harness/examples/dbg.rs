use hlverif::case::*;
use hlverif::engine::*;
use hlverif::interp::Opts;
use hlverif::world::*;
fn main() {
	let world = WorldSpec { leaves: vec![LeafDecl { ty: LeafTy::R, wraps: 0 }], colls: vec![] };
	for steps in [
		vec![(0, Step::GetKey), (0, Step::Acquire { target: TargetRef::Leaf(0), read: false, try_: false })],
		vec![(0, Step::GetKey), (0, Step::Debug { target: TargetRef::Leaf(0) })],
		vec![(0, Step::GetKey), (0, Step::PhantomHold{leaf:0, shared:true})],
	] {
		let case = SeqCase { world: world.clone(), nthreads: 1, steps, fault: None };
		let r = run_seq(&case, Opts { quiescent: true, ..Default::default() });
		println!("{:?}", r.findings.iter().map(|f| (f.step, f.sig.clone())).collect::<Vec<_>>());
	}
}
