use hlverif::gen::*;
use hlverif::engine::*;
use hlverif::interp::Opts;
use std::time::Instant;
fn main() {
	let cfg = hlverif::props::seq_cfg_general();
	let mut bytes = vec![0u8; 220];
	let mut x: u32 = 12345;
	let n = 3000;
	let mut cases = Vec::new();
	let t = Instant::now();
	for _ in 0..n {
		for b in bytes.iter_mut() { x = x.wrapping_mul(1664525).wrapping_add(1013904223); *b = (x >> 24) as u8; }
		cases.push(gen_seq(&mut Src::new(&bytes), &cfg));
	}
	println!("gen: {:?} per case", t.elapsed() / n);
	let t = Instant::now();
	let mut ops = 0;
	for c in &cases { let r = run_seq(c, Opts::default()); ops += r.raw_ops; }
	println!("run: {:?} per case, {} raw ops", t.elapsed() / n, ops);
	let t = Instant::now();
	for c in &cases { let _ = hlverif::world::Sem::new(&c.world); }
	println!("sem: {:?} per case", t.elapsed() / n);
	let t = Instant::now();
	for c in &cases { let w = hlverif::world::World::build(&c.world); drop(w); }
	println!("build: {:?} per case", t.elapsed() / n);
	let t = Instant::now();
	for c in &cases { let _ = format!("{c:?}"); }
	println!("fmt: {:?} per case", t.elapsed() / n);
}
