use hlverif::tyeng::*;
fn main() {
	let tc = Toolchain::locate().unwrap_or_else(|_| {
		// examples live one level deeper than the hlv binary
		panic!("locate")
	});
	for p in families_c15(&Subj::all_with_apis()) {
		if p.family.starts_with("D1-reference-via") {
			let o = judge(&tc, &p);
			if let PairOutcome::GeneratorError(e) = &o { println!("{} :: {}\n{}", p.name, e, p.twin); break; }
		}
	}
	tc.cleanup();
}
