//! TYPES engine: generated client programs, `rustc` (run against the rlib that
//! the harness build just produced from /repo's working tree) as the system
//! under test.  Every case is a pair: a *twin* that must compile and an
//! *offending* program that differs only inside the marked region and must be
//! rejected there.  Auto-trait cells are decided differentially against std.

use std::collections::HashMap;
use std::path::PathBuf;
use std::process::Command;
use std::sync::Mutex;

use serde::{Deserialize, Serialize};

use crate::gen::Src;

pub struct Toolchain {
	pub rlib: PathBuf,
	pub deps: PathBuf,
	pub lock_api: PathBuf,
	pub work: PathBuf,
}

fn newest(dir: &std::path::Path, prefix: &str, suffix: &str) -> Option<PathBuf> {
	let mut best: Option<(std::time::SystemTime, PathBuf)> = None;
	for e in std::fs::read_dir(dir).ok()? {
		let e = e.ok()?;
		let n = e.file_name().to_string_lossy().to_string();
		if n.starts_with(prefix) && n.ends_with(suffix) {
			let t = e.metadata().ok()?.modified().ok()?;
			if best.as_ref().map(|(bt, _)| t > *bt).unwrap_or(true) {
				best = Some((t, e.path()));
			}
		}
	}
	best.map(|(_, p)| p)
}

impl Toolchain {
	/// The rlib next to the running binary: the `check` script rebuilt it from
	/// /repo's current working tree just before starting us.
	pub fn locate() -> Result<Toolchain, String> {
		let exe = std::env::current_exe().map_err(|e| e.to_string())?;
		let deps = exe.parent().ok_or("no parent")?.join("deps");
		let rlib = newest(&deps, "libhappylock-", ".rlib").ok_or("no libhappylock rlib next to the binary")?;
		let lock_api = newest(&deps, "liblock_api-", ".rlib").ok_or("no liblock_api rlib")?;
		let work = crate::runner::verif_root().join("work").join(format!("types-{}", std::process::id()));
		std::fs::create_dir_all(&work).map_err(|e| e.to_string())?;
		let tc = Toolchain { rlib, deps, lock_api, work };
		tc.load_disk_cache();
		Ok(tc)
	}
	pub fn cleanup(&self) {
		self.store_disk_cache();
		let _ = std::fs::remove_dir_all(&self.work);
	}

	/// Verdicts are a function of (program text, the rlib of the tree under
	/// test, the compiler): they are kept on disk per rlib content, so that the
	/// checks of different properties do not compile the same program again.
	fn cache_file(&self) -> Option<PathBuf> {
		let bytes = std::fs::read(&self.rlib).ok()?;
		let mut h = std::collections::hash_map::DefaultHasher::new();
		use std::hash::Hasher;
		h.write(&bytes);
		let dir = crate::runner::verif_root().join("work").join("types-cache");
		std::fs::create_dir_all(&dir).ok()?;
		Some(dir.join(format!("{:016x}.json", h.finish())))
	}
	fn load_disk_cache(&self) {
		if std::env::var_os("HLV_NO_TYPES_CACHE").is_some() {
			return;
		}
		let Some(f) = self.cache_file() else { return };
		let Ok(txt) = std::fs::read_to_string(&f) else { return };
		let Ok(m) = serde_json::from_str::<HashMap<String, Verdict>>(&txt) else { return };
		let mut g = CACHE.lock().unwrap();
		let c = g.get_or_insert_with(HashMap::new);
		for (k, v) in m {
			if let Ok(k) = u64::from_str_radix(&k, 16) {
				if v.tool_failure.is_none() {
					c.entry(k).or_insert(v);
				}
			}
		}
	}
	fn store_disk_cache(&self) {
		if std::env::var_os("HLV_NO_TYPES_CACHE").is_some() {
			return;
		}
		let Some(f) = self.cache_file() else { return };
		let g = CACHE.lock().unwrap();
		let Some(c) = g.as_ref() else { return };
		let m: HashMap<String, &Verdict> = c.iter().filter(|(_, v)| v.tool_failure.is_none()).map(|(k, v)| (format!("{k:016x}"), v)).collect();
		let tmp = f.with_extension(format!("tmp{}", std::process::id()));
		if std::fs::write(&tmp, serde_json::to_string(&m).unwrap_or_default()).is_ok() {
			let _ = std::fs::rename(&tmp, &f);
		}
	}
}

#[derive(Clone, Debug, Serialize, Deserialize)]
pub struct Diag {
	pub code: Option<String>,
	pub line: usize,
	pub message: String,
}

#[derive(Clone, Debug, Serialize, Deserialize)]
pub struct Verdict {
	pub accepted: bool,
	pub errors: Vec<Diag>,
	pub tool_failure: Option<String>,
}

static CACHE: Mutex<Option<HashMap<u64, Verdict>>> = Mutex::new(None);

pub fn compile(tc: &Toolchain, src: &str) -> Verdict {
	let h = crate::runner::fp_str(src);
	if let Some(v) = CACHE.lock().unwrap().get_or_insert_with(HashMap::new).get(&h) {
		return v.clone();
	}
	static SEQ: std::sync::atomic::AtomicU64 = std::sync::atomic::AtomicU64::new(0);
	let n = SEQ.fetch_add(1, std::sync::atomic::Ordering::Relaxed);
	let file = tc.work.join(format!("p{h:016x}_{n}.rs"));
	let out = tc.work.join(format!("p{h:016x}_{n}.rmeta"));
	let _ = std::fs::write(&file, src);
	let res = Command::new("rustc")
		.arg("--edition")
		.arg("2021")
		.arg("--crate-type")
		.arg("lib")
		.arg("--crate-name")
		.arg("probe")
		.arg("--emit=metadata")
		.arg("--error-format=json")
		.arg("-A")
		.arg("warnings")
		.arg("-L")
		.arg(format!("dependency={}", tc.deps.display()))
		.arg("--extern")
		.arg(format!("happylock={}", tc.rlib.display()))
		.arg("--extern")
		.arg(format!("lock_api={}", tc.lock_api.display()))
		.arg("-o")
		.arg(&out)
		.arg(&file)
		.output();
	let v = match res {
		Err(e) => Verdict { accepted: false, errors: vec![], tool_failure: Some(e.to_string()) },
		Ok(o) => {
			let mut errors = Vec::new();
			for l in String::from_utf8_lossy(&o.stderr).lines() {
				if let Ok(j) = serde_json::from_str::<serde_json::Value>(l) {
					if j["level"] == "error" {
						let code = j["code"]["code"].as_str().map(|s| s.to_string());
						let msg = j["message"].as_str().unwrap_or("").to_string();
						if msg.starts_with("aborting due to") {
							continue;
						}
						let line = j["spans"]
							.as_array()
							.and_then(|a| a.iter().find(|s| s["is_primary"] == true))
							.and_then(|s| s["line_start"].as_u64())
							.unwrap_or(0) as usize;
						errors.push(Diag { code, line, message: msg });
					}
				}
			}
			let accepted = o.status.success();
			let io_problem = errors.iter().any(|e| e.code.is_none() && e.line == 0);
			let tool_failure = if !accepted && (errors.is_empty() || io_problem) {
				Some(String::from_utf8_lossy(&o.stderr).chars().take(400).collect())
			} else {
				None
			};
			Verdict { accepted, errors, tool_failure }
		}
	};
	let _ = std::fs::remove_file(&file);
	let _ = std::fs::remove_file(&out);
	CACHE.lock().unwrap().get_or_insert_with(HashMap::new).insert(h, v.clone());
	v
}

/// 1-based line numbers that lie inside a `//<<` ... `//>>` region
pub fn marked_lines(src: &str) -> Vec<usize> {
	let mut v = Vec::new();
	let mut on = false;
	for (i, l) in src.lines().enumerate() {
		if l.contains("//<<") {
			on = true;
		}
		if on {
			v.push(i + 1);
		}
		if l.contains("//>>") {
			on = false;
		}
	}
	v
}

#[derive(Clone, Debug, Serialize, Deserialize)]
pub struct Pair {
	pub prop: String,
	pub family: String,
	pub name: String,
	pub twin: String,
	pub offending: String,
	/// differential cells: the same offending program over std::sync
	pub std_offending: Option<String>,
}

#[derive(Clone, Debug, Serialize)]
pub enum PairOutcome {
	/// twin accepted, offending rejected on the marked lines
	Held { codes: Vec<String> },
	/// the offending program compiles: the guarantee does not hold
	Accepted,
	/// differential cell on which std accepts as well: nothing to assert
	StdAcceptsToo,
	/// differential cell: both reject
	BothReject,
	/// the generator produced something unusable (twin does not compile, error elsewhere)
	GeneratorError(String),
}

pub fn judge(tc: &Toolchain, p: &Pair) -> PairOutcome {
	let twin = compile(tc, &p.twin);
	if let Some(t) = &twin.tool_failure {
		return PairOutcome::GeneratorError(format!("rustc failed on the twin: {t}"));
	}
	if !twin.accepted {
		return PairOutcome::GeneratorError(format!(
			"twin does not compile: {:?}",
			twin.errors.iter().map(|e| format!("{:?}@{} {}", e.code, e.line, e.message)).collect::<Vec<_>>()
		));
	}
	let off = compile(tc, &p.offending);
	if let Some(t) = &off.tool_failure {
		return PairOutcome::GeneratorError(format!("rustc failed on the offending program: {t}"));
	}
	if let Some(stdsrc) = &p.std_offending {
		let sv = compile(tc, stdsrc);
		if let Some(t) = &sv.tool_failure {
			return PairOutcome::GeneratorError(format!("rustc failed on the std program: {t}"));
		}
		return match (sv.accepted, off.accepted) {
			(true, _) => PairOutcome::StdAcceptsToo,
			(false, false) => PairOutcome::BothReject,
			(false, true) => PairOutcome::Accepted,
		};
	}
	if off.accepted {
		return PairOutcome::Accepted;
	}
	let marked = marked_lines(&p.offending);
	for e in &off.errors {
		if !marked.contains(&e.line) {
			return PairOutcome::GeneratorError(format!(
				"offending program rejected outside the marked region: {:?}@{} {}",
				e.code, e.line, e.message
			));
		}
	}
	PairOutcome::Held { codes: off.errors.iter().filter_map(|e| e.code.clone()).collect() }
}

// ---------------------------------------------------------------------------
// subjects

#[derive(Clone, Copy, Debug, PartialEq, Eq)]
pub enum LockTy {
	Mutex,
	RwLock,
}

#[derive(Clone, Copy, Debug, PartialEq, Eq)]
pub enum CollK {
	Boxed,
	Ref,
	Owned,
	Retry,
}

#[derive(Clone, Copy, Debug, PartialEq, Eq)]
pub enum ContK {
	Tuple,
	Array,
	Vec,
	Boxed,
}

#[derive(Clone, Copy, Debug, PartialEq, Eq)]
pub enum Api {
	Lock,
	TryLock,
	Read,
	TryRead,
}

#[derive(Clone, Copy, Debug, PartialEq, Eq)]
pub struct Subj {
	pub lock: LockTy,
	pub pois: bool,
	pub coll: Option<(CollK, ContK)>,
	/// which acquiring API the programs use (quick: Lock only)
	pub api: Api,
}

pub const PRELUDE: &str = "#![allow(unused)]\nuse happylock::*;\nuse happylock::collection::*;\nuse happylock::lockable::*;\nuse happylock::poisonable::*;\nuse happylock::mutex::{MutexGuard, MutexRef};\nuse happylock::rwlock::{RwLockReadGuard, RwLockWriteGuard, RwLockReadRef, RwLockWriteRef};\nuse std::sync::Arc;\nuse std::cell::Cell;\nuse std::rc::Rc;\n";

impl Subj {
	pub fn all() -> Vec<Subj> {
		let mut v = Vec::new();
		for lock in [LockTy::Mutex, LockTy::RwLock] {
			v.push(Subj { lock, pois: false, coll: None, api: Api::Lock });
			v.push(Subj { lock, pois: true, coll: None, api: Api::Lock });
			for k in [CollK::Boxed, CollK::Ref, CollK::Owned, CollK::Retry] {
				for c in [ContK::Tuple, ContK::Array, ContK::Vec, ContK::Boxed] {
					v.push(Subj { lock, pois: false, coll: Some((k, c)), api: Api::Lock });
				}
			}
		}
		v
	}
	/// the subjects x every acquiring API that exists for them
	pub fn all_with_apis() -> Vec<Subj> {
		let mut v = Vec::new();
		for s in Subj::all() {
			v.push(s);
			v.push(Subj { api: Api::TryLock, ..s });
			if s.lock == LockTy::RwLock {
				v.push(Subj { api: Api::Read, ..s });
				v.push(Subj { api: Api::TryRead, ..s });
			}
		}
		v
	}
	pub fn is_read(&self) -> bool {
		matches!(self.api, Api::Read | Api::TryRead)
	}
	pub fn is_try(&self) -> bool {
		matches!(self.api, Api::TryLock | Api::TryRead)
	}
	/// "&mut" / "&": what kind of reference a section of this API hands out
	pub fn rmut(&self) -> &'static str {
		if self.is_read() {
			"&"
		} else {
			"&mut"
		}
	}
	/// a statement that uses the reference `r` (write through it / read it)
	pub fn use_ref(&self, r: &str) -> String {
		if self.is_read() {
			format!("let _v: i32 = *{r};")
		} else {
			format!("*{r} = 5;")
		}
	}
	pub fn name(&self) -> String {
		format!(
			"{}{:?}{}{}",
			if self.pois { "Poisonable" } else { "" },
			self.lock,
			match self.coll {
				Some((k, c)) => format!("-in-{k:?}-of-{c:?}"),
				None => String::new(),
			},
			match self.api {
				Api::Lock => "",
				Api::TryLock => "-via-try_lock",
				Api::Read => "-via-read",
				Api::TryRead => "-via-try_read",
			}
		)
	}
	pub fn leaf_ty(&self, payload: &str) -> String {
		match self.lock {
			LockTy::Mutex => format!("Mutex<{payload}>"),
			LockTy::RwLock => format!("RwLock<{payload}>"),
		}
	}
	pub fn leaf_new(&self, v: &str) -> String {
		match self.lock {
			LockTy::Mutex => format!("Mutex::new({v})"),
			LockTy::RwLock => format!("RwLock::new({v})"),
		}
	}
	fn cont_ty(&self, leaf: &str) -> String {
		match self.coll.unwrap().1 {
			ContK::Tuple => format!("({leaf}, {leaf})"),
			ContK::Array => format!("[{leaf}; 2]"),
			ContK::Vec => format!("Vec<{leaf}>"),
			ContK::Boxed => format!("Box<[{leaf}]>"),
		}
	}
	fn cont_new(&self, a: &str, b: &str) -> String {
		match self.coll.unwrap().1 {
			ContK::Tuple => format!("({a}, {b})"),
			ContK::Array => format!("[{a}, {b}]"),
			ContK::Vec => format!("vec![{a}, {b}]"),
			ContK::Boxed => format!("vec![{a}, {b}].into_boxed_slice()"),
		}
	}
	/// type of the subject `s` (payload i32)
	pub fn ty(&self) -> String {
		let leaf = self.leaf_ty("i32");
		match self.coll {
			None => {
				if self.pois {
					format!("Poisonable<{leaf}>")
				} else {
					leaf
				}
			}
			Some((k, _)) => {
				let c = self.cont_ty(&leaf);
				match k {
					CollK::Boxed => format!("LockCollection<{c}>"),
					CollK::Ref => format!("RefLockCollection<'_, {c}>"),
					CollK::Owned => format!("OwnedLockCollection<{c}>"),
					CollK::Retry => format!("RetryingLockCollection<{c}>"),
				}
			}
		}
	}
	/// path for associated functions: `LockCollection::<(Mutex<i32>, Mutex<i32>)>`
	pub fn path(&self) -> String {
		let leaf = self.leaf_ty("i32");
		match self.coll {
			None => {
				if self.pois {
					format!("Poisonable::<{leaf}>")
				} else {
					match self.lock {
						LockTy::Mutex => "Mutex::<i32, _>".to_string(),
						LockTy::RwLock => "RwLock::<i32, _>".to_string(),
					}
				}
			}
			Some((k, _)) => {
				let c = self.cont_ty(&leaf);
				match k {
					CollK::Boxed => format!("LockCollection::<{c}>"),
					CollK::Ref => format!("RefLockCollection::<'_, {c}>"),
					CollK::Owned => format!("OwnedLockCollection::<{c}>"),
					CollK::Retry => format!("RetryingLockCollection::<{c}>"),
				}
			}
		}
	}
	/// statements that declare `s` (the subject) in the current scope
	pub fn decl(&self) -> String {
		let a = self.leaf_new("1");
		let b = self.leaf_new("2");
		match self.coll {
			None => {
				if self.pois {
					format!("let s = Poisonable::new({a});")
				} else {
					format!("let s = {a};")
				}
			}
			Some((k, _)) => {
				let c = self.cont_new(&a, &b);
				match k {
					CollK::Boxed => format!("let s = LockCollection::new({c});"),
					CollK::Ref => format!("let data = {c};\n    let s = RefLockCollection::new(&data);"),
					CollK::Owned => format!("let s = OwnedLockCollection::new({c});"),
					CollK::Retry => format!("let s = RetryingLockCollection::new({c});"),
				}
			}
		}
	}
	/// expression of type `Self::ty()` that owns everything (usable in `static`/Arc)
	pub fn owned_expr(&self) -> Option<String> {
		let a = self.leaf_new("1");
		let b = self.leaf_new("2");
		match self.coll {
			None => Some(if self.pois { format!("Poisonable::new({a})") } else { a }),
			Some((k, _)) => {
				let c = self.cont_new(&a, &b);
				match k {
					CollK::Boxed => Some(format!("LockCollection::new({c})")),
					CollK::Ref => None,
					CollK::Owned => Some(format!("OwnedLockCollection::new({c})")),
					CollK::Retry => Some(format!("RetryingLockCollection::new({c})")),
				}
			}
		}
	}
	pub fn write_method(&self) -> &'static str {
		match (self.coll.is_some() || self.pois, self.lock) {
			(true, _) => "lock",
			(false, LockTy::Mutex) => "lock",
			(false, LockTy::RwLock) => "write",
		}
	}
	pub fn try_write_method(&self) -> &'static str {
		match (self.coll.is_some() || self.pois, self.lock) {
			(true, _) => "try_lock",
			(false, LockTy::Mutex) => "try_lock",
			(false, LockTy::RwLock) => "try_write",
		}
	}
	/// the scoped method of this subject's API
	pub fn scoped_write_method(&self) -> &'static str {
		let wrapped = self.coll.is_some() || self.pois;
		match (self.api, wrapped, self.lock) {
			(Api::Lock, true, _) | (Api::Lock, false, LockTy::Mutex) => "scoped_lock",
			(Api::Lock, false, LockTy::RwLock) => "scoped_write",
			(Api::TryLock, true, _) | (Api::TryLock, false, LockTy::Mutex) => "scoped_try_lock",
			(Api::TryLock, false, LockTy::RwLock) => "scoped_try_write",
			(Api::Read, _, _) => "scoped_read",
			(Api::TryRead, _, _) => "scoped_try_read",
		}
	}
	/// suffix that turns the result of the scoped call into the closure's value
	pub fn scoped_suffix(&self) -> &'static str {
		if self.is_try() {
			".ok().unwrap()"
		} else {
			""
		}
	}
	pub fn unlock_fn(&self) -> &'static str {
		if self.is_read() {
			return "unlock_read";
		}
		match (self.coll.is_some() || self.pois, self.lock) {
			(true, _) => "unlock",
			(false, LockTy::Mutex) => "unlock",
			(false, LockTy::RwLock) => "unlock_write",
		}
	}
	/// `s.lock(KEY)` (or the API variant) yielding the guard value itself
	pub fn acquire(&self, s: &str, key: &str) -> String {
		let m = match self.api {
			Api::Lock => self.write_method(),
			Api::TryLock => self.try_write_method(),
			Api::Read => "read",
			Api::TryRead => "try_read",
		};
		if self.is_try() {
			format!("{s}.{m}({key}).ok().unwrap()")
		} else if self.pois {
			format!("{s}.{m}({key}).unwrap()")
		} else {
			format!("{s}.{m}({key})")
		}
	}
	/// place expression of type i32 reached through guard `g`
	pub fn first(&self, g: &str) -> String {
		match self.coll {
			None => format!("*{g}"),
			Some((_, ContK::Tuple)) => format!("*{g}.0"),
			Some(_) => format!("*{g}[0]"),
		}
	}
	/// `&mut i32` reached through the closure argument `x` of a scoped call
	pub fn first_of_data(&self, x: &str) -> String {
		match self.coll {
			None => {
				if self.pois {
					format!("{x}.unwrap()")
				} else {
					x.to_string()
				}
			}
			Some((_, ContK::Tuple)) => format!("{x}.0"),
			Some(_) => format!("{{ let mut it = Vec::from({x}).into_iter(); it.next().unwrap() }}")
				.replace("Vec::from", if matches!(self.coll, Some((_, ContK::Array))) { "Vec::from" } else { "Vec::from" }),
		}
	}
	pub fn unlock(&self, g: &str) -> String {
		format!("{}::{}({g})", self.path(), self.unlock_fn())
	}
	pub fn sharable(&self) -> bool {
		self.lock == LockTy::RwLock
	}
}

// ---------------------------------------------------------------------------
// program families

fn wrap_fn(body: &str) -> String {
	format!("{PRELUDE}\npub fn probe() {{\n{body}\n}}\n")
}

/// Build twin and offending from a body template containing the placeholder
/// `@@` once: it is replaced by the marked region with the twin / offending text.
fn pair_from(prop: &str, family: &str, name: String, template: &str, twin: &str, offending: &str) -> Pair {
	let region = |t: &str| format!("//<<\n{t}\n//>>");
	Pair {
		prop: prop.into(),
		family: family.into(),
		name,
		twin: template.replace("@@", &region(twin)),
		offending: template.replace("@@", &region(offending)),
		std_offending: None,
	}
}

pub fn families_c14(subjects: &[Subj]) -> Vec<Pair> {
	let mut v = Vec::new();
	for s in subjects.iter().copied() {
		let n = s.name();
		let decl = s.decl();
		let acq = |k: &str| s.acquire("s", k);
		// K2: locking through a shared reference to the key
		v.push(pair_from(
			"C14",
			"K2-lock-through-shared-key-ref",
			n.clone(),
			&wrap_fn(&format!("    let key = ThreadKey::get().unwrap();\n    {decl}\n@@\n")),
			&format!("    let g = {};\n    drop(g);", acq("key")),
			&format!("    let g = {};\n    drop(g);", acq("&key")),
		));
		// K5: guard APIs given &mut key
		v.push(pair_from(
			"C14",
			"K5-guard-api-with-borrowed-key",
			n.clone(),
			&wrap_fn(&format!("    let mut key = ThreadKey::get().unwrap();\n    {decl}\n@@\n")),
			&format!("    let g = {};\n    drop(g);", acq("key")),
			&format!("    let g = {};\n    drop(g);", acq("&mut key")),
		));
		// K3a: use after move (two guards from one key)
		v.push(pair_from(
			"C14",
			"K3-key-used-twice",
			n.clone(),
			&wrap_fn(&format!("    let key = ThreadKey::get().unwrap();\n    {decl}\n    let other = Mutex::new(0u8);\n    let g = {};\n@@\n    drop(g);\n", acq("key"))),
			"    let k2 = ThreadKey::get();",
			"    let g2 = other.lock(key);",
		));
		// K6: nested scoped calls re-using the lent key
		let sm = s.scoped_write_method();
		v.push(pair_from(
			"C14",
			"K6-nested-scoped-same-key",
			n.clone(),
			&wrap_fn(&format!("    let mut key = ThreadKey::get().unwrap();\n    {decl}\n    let other = Mutex::new(0u8);\n@@\n")),
			&format!("    s.{sm}(&mut key, |_x| ());\n    other.scoped_lock(&mut key, |_y| ());"),
			&format!("    s.{sm}(&mut key, |_x| {{\n        other.scoped_lock(&mut key, |_y| ());\n    }});"),
		));
		// K7: using the key inside the closure it is lent to
		v.push(pair_from(
			"C14",
			"K7-key-used-inside-its-closure",
			n.clone(),
			&wrap_fn(&format!("    let mut key = ThreadKey::get().unwrap();\n    {decl}\n    let other = Mutex::new(0u8);\n@@\n")),
			&format!("    s.{sm}(&mut key, |_x| ());\n    let g = other.lock(key);\n    drop(g);"),
			&format!("    s.{sm}(&mut key, |_x| {{\n        let g = other.lock(key);\n        drop(g);\n    }});"),
		));
		// K7b: owned key moved into a scoped call, then used inside
		v.push(pair_from(
			"C14",
			"K7-owned-key-used-after-move-into-scoped",
			n.clone(),
			&wrap_fn(&format!("    let key = ThreadKey::get().unwrap();\n    {decl}\n    let other = Mutex::new(0u8);\n@@\n")),
			&format!("    s.{sm}(key, |_x| ());"),
			&format!("    s.{sm}(key, |_x| ());\n    let g = other.lock(key);"),
		));
		// K8: the guard's key field is private
		let field = if s.coll.is_some() {
			"key"
		} else if s.pois {
			"key"
		} else {
			"thread_key"
		};
		v.push(pair_from(
			"C14",
			"K8-private-key-field",
			n.clone(),
			&wrap_fn(&format!("    let key = ThreadKey::get().unwrap();\n    {decl}\n    let g = {};\n@@\n", acq("key"))),
			"    drop(g);",
			&format!("    let k: ThreadKey = g.{field};"),
		));
		// K1: moving the key into another thread and locking there
		if let Some(e) = s.owned_expr() {
			let ty = s.ty();
			v.push(pair_from(
				"C14",
				"K1-key-moved-to-other-thread",
				n.clone(),
				&wrap_fn(&format!(
					"    let key = ThreadKey::get().unwrap();\n    let s: Arc<{ty}> = Arc::new({e});\n    let s2 = Arc::clone(&s);\n@@\n"
				)),
				&format!(
					"    let h = std::thread::spawn(move || {{\n        let key = ThreadKey::get().unwrap();\n        let g = {};\n        drop(g);\n    }});\n    h.join().unwrap();\n    drop(key);",
					s.acquire("s2", "key")
				),
				&format!(
					"    let h = std::thread::spawn(move || {{\n        let g = {};\n        drop(g);\n    }});\n    h.join().unwrap();",
					s.acquire("s2", "key")
				),
			));
			// K1b: scoped thread borrowing &mut key
			v.push(pair_from(
				"C14",
				"K1-key-lent-to-scoped-thread",
				n.clone(),
				&wrap_fn(&format!("    let mut key = ThreadKey::get().unwrap();\n    let s: {ty} = {e};\n@@\n")),
				&format!(
					"    std::thread::scope(|sc| {{\n        sc.spawn(|| {{\n            let mut key = ThreadKey::get().unwrap();\n            s.{sm}(&mut key, |_x| ());\n        }});\n    }});"
				),
				&format!("    std::thread::scope(|sc| {{\n        sc.spawn(|| {{\n            s.{sm}(&mut key, |_x| ());\n        }});\n    }});"),
			));
			// K9: sending a key-holding guard to another thread
			v.push(pair_from(
				"C14",
				"K9-guard-sent-to-other-thread",
				n.clone(),
				&wrap_fn(&format!(
					"    let key = ThreadKey::get().unwrap();\n    let s: &'static {ty} = Box::leak(Box::new({e}));\n    let g = {};\n@@\n",
					s.acquire("s", "key")
				)),
				"    let h = std::thread::spawn(move || ());\n    h.join().unwrap();\n    drop(g);",
				"    let h = std::thread::spawn(move || drop(g));\n    h.join().unwrap();",
			));
		}
		// K10: moving the holds out of the guard, then getting the key back
		let unl = s.unlock("g");
		if let Some((_, c)) = s.coll {
			let (twin, off) = match c {
				ContK::Tuple => ("    let a = &mut g.0;".to_string(), "    let (a, b) = *g;".to_string()),
				ContK::Array => ("    let a = &mut g[0];".to_string(), "    let [a, b] = *g;".to_string()),
				ContK::Vec | ContK::Boxed => ("    let a = &mut g[0];".to_string(), "    let stolen = std::mem::take(&mut *g);".to_string()),
			};
			v.push(pair_from(
				"C14",
				if matches!(c, ContK::Vec | ContK::Boxed) { "K10-holds-moved-out-by-mem-take" } else { "K10-holds-moved-out-by-destructuring" },
				n.clone(),
				&wrap_fn(&format!(
					"    let key = ThreadKey::get().unwrap();\n    {decl}\n    let mut g = {};\n@@\n    let key = {unl};\n    let g2 = {};\n    drop(g2);\n",
					acq("key"),
					acq("key")
				)),
				&twin,
				&off,
			));
		}
	}
	// K2b: every acquiring entry point insists on a key: something that is not
	// a key (`()`, `&mut ()`, a number) in the key position must be rejected.
	// Depends on each function's own signature: every API variant, both tiers.
	for s in Subj::all_with_apis() {
		let n = s.name();
		let decl = s.decl();
		let sm = s.scoped_write_method();
		let suffix = if s.is_try() { ".ok();" } else { ";" };
		for (what, arg) in [("unit", "()"), ("&mut unit", "&mut ()"), ("u8", "0u8")] {
			v.push(pair_from(
				"C14",
				"K2-acquiring-api-accepts-a-non-key",
				format!("{n}: {sm}({what})"),
				&wrap_fn(&format!("    let mut key = ThreadKey::get().unwrap();\n    {decl}\n@@\n")),
				&format!("    let _r = s.{sm}(&mut key, |_x| ()){suffix}"),
				&format!("    let _r = s.{sm}({arg}, |_x| ()){suffix}"),
			));
		}
		v.push(pair_from(
			"C14",
			"K2-acquiring-api-accepts-a-non-key",
			format!("{n}: guard api (unit)"),
			&wrap_fn(&format!("    let key = ThreadKey::get().unwrap();\n    {decl}\n@@\n")),
			&format!("    let g = {};\n    drop(g);", s.acquire("s", "key")),
			&format!("    let g = {};\n    drop(g);", s.acquire("s", "()")),
		));
	}
	// key-level families (no subject)
	let t = wrap_fn("    let key = ThreadKey::get().unwrap();\n@@\n    drop(key);\n");
	v.push(pair_from("C14", "K3-key-clone", "ThreadKey".into(), &t, "    let k2 = &key;", "    let k2 = key.clone();"));
	v.push(pair_from(
		"C14",
		"K3-key-copy",
		"ThreadKey".into(),
		&t,
		"    let k2 = &key;",
		"    fn need_copy<T: Copy>(_t: &T) {}\n    need_copy(&key);",
	));
	v.push(pair_from(
		"C14",
		"K1-key-is-send",
		"ThreadKey".into(),
		&t,
		"    fn need_sync<T: Sync>(_t: &T) {}\n    need_sync(&key);",
		"    fn need_send<T: Send>(_t: &T) {}\n    need_send(&key);",
	));
	v.push(pair_from(
		"C14",
		"K4-forge-struct-literal",
		"ThreadKey".into(),
		&t,
		"    let k2: Option<ThreadKey> = None;",
		"    let k2 = ThreadKey { phantom: std::marker::PhantomData };",
	));
	v.push(pair_from(
		"C14",
		"K4-forge-keyable-impl",
		"Keyable".into(),
		&format!("{PRELUDE}\npub struct MyKey;\n@@\npub fn probe() {{}}\n"),
		"impl Clone for MyKey { fn clone(&self) -> Self { MyKey } }",
		"unsafe impl Keyable for MyKey {}",
	));
	v.push(pair_from(
		"C14",
		"K4-forge-keyable-for-shared-ref",
		"Keyable".into(),
		&wrap_fn("    let mut key = ThreadKey::get().unwrap();\n    let m = Mutex::new(0);\n@@\n"),
		"    fn take(_k: impl Keyable) {}\n    take(&mut key);",
		"    fn take(_k: impl Keyable) {}\n    take(&key);",
	));
	v.push(pair_from(
		"C14",
		"K4-forge-default-or-new",
		"ThreadKey".into(),
		&wrap_fn("@@\n"),
		"    let k: Option<ThreadKey> = ThreadKey::get();",
		"    let k: ThreadKey = Default::default();",
	));
	v.push(pair_from(
		"C14",
		"K4-transmute-free-forgery-via-sealed-path",
		"Keyable".into(),
		&format!("{PRELUDE}\npub struct MyKey;\n@@\npub fn probe() {{}}\n"),
		"impl Drop for MyKey { fn drop(&mut self) {} }",
		"impl happylock::key::sealed::Sealed for MyKey {}",
	));
	// K4b: nothing but a key (or a unique borrow of one) may satisfy `Keyable`:
	// not a user type that merely *points at* ThreadKey through a std trait (a
	// blanket impl over Deref / AsMut / Borrow / From / FnOnce would let safe code
	// forge keys: the library never looks inside a key), not a shareable or
	// possibly-empty container of keys
	{
		let forged: Vec<(&str, String, &str)> = vec![
			(
				"user type with Deref+DerefMut<Target = ThreadKey>",
				"pub struct Forged;\nimpl std::ops::Deref for Forged { type Target = ThreadKey; fn deref(&self) -> &ThreadKey { unreachable!() } }\nimpl std::ops::DerefMut for Forged { fn deref_mut(&mut self) -> &mut ThreadKey { unreachable!() } }\n".into(),
				"Forged",
			),
			(
				"user type with AsRef+AsMut<ThreadKey>",
				"pub struct Forged;\nimpl AsRef<ThreadKey> for Forged { fn as_ref(&self) -> &ThreadKey { unreachable!() } }\nimpl AsMut<ThreadKey> for Forged { fn as_mut(&mut self) -> &mut ThreadKey { unreachable!() } }\n".into(),
				"Forged",
			),
			(
				"user type with Borrow+BorrowMut<ThreadKey>",
				"pub struct Forged;\nimpl std::borrow::Borrow<ThreadKey> for Forged { fn borrow(&self) -> &ThreadKey { unreachable!() } }\nimpl std::borrow::BorrowMut<ThreadKey> for Forged { fn borrow_mut(&mut self) -> &mut ThreadKey { unreachable!() } }\n".into(),
				"Forged",
			),
			(
				"user type convertible Into<ThreadKey>",
				"pub struct Forged;\nimpl From<Forged> for ThreadKey { fn from(_f: Forged) -> ThreadKey { unreachable!() } }\n".into(),
				"Forged",
			),
			(
				"user type that is Default+Clone+Copy+Send+Sync",
				"#[derive(Default, Clone, Copy, Debug, PartialEq, Eq, Hash)]\npub struct Forged;\n".into(),
				"Forged",
			),
			("fn() -> ThreadKey", String::new(), "fn() -> ThreadKey"),
			("Box<dyn FnOnce() -> ThreadKey>", String::new(), "Box<dyn FnOnce() -> ThreadKey>"),
			("&ThreadKey", String::new(), "&'static ThreadKey"),
			("&&mut ThreadKey", String::new(), "&'static &'static mut ThreadKey"),
			("&Box<ThreadKey>", String::new(), "&'static Box<ThreadKey>"),
			("Rc<ThreadKey>", String::new(), "std::rc::Rc<ThreadKey>"),
			("Arc<ThreadKey>", String::new(), "std::sync::Arc<ThreadKey>"),
			("Rc<RefCell<ThreadKey>>", String::new(), "std::rc::Rc<std::cell::RefCell<ThreadKey>>"),
			("cell::Ref<ThreadKey>", String::new(), "std::cell::Ref<'static, ThreadKey>"),
			("Option<ThreadKey>", String::new(), "Option<ThreadKey>"),
			("Option<&mut ThreadKey>", String::new(), "Option<&'static mut ThreadKey>"),
			("Result<ThreadKey, ()>", String::new(), "Result<ThreadKey, ()>"),
			("Vec<ThreadKey>", String::new(), "Vec<ThreadKey>"),
			("[ThreadKey; 0]", String::new(), "[ThreadKey; 0]"),
			("PhantomData<ThreadKey>", String::new(), "std::marker::PhantomData<ThreadKey>"),
			("()", String::new(), "()"),
			("*mut ThreadKey", String::new(), "*mut ThreadKey"),
		];
		for (name, decl, ty) in &forged {
			let prog = |t: &str| format!("{PRELUDE}\n{decl}fn need<K: Keyable>() {{}}\npub fn probe() {{\n//<<\n    need::<{t}>();\n//>>\n}}\n");
			v.push(Pair {
				prop: "C14".into(),
				family: "K4-keyless-or-shareable-type-is-keyable".into(),
				name: name.to_string(),
				twin: prog("&'static mut ThreadKey"),
				offending: prog(ty),
				std_offending: None,
			});
		}
	}
	// K9b: no type that carries a key (or a key and a hold) may be Send, whatever it is wrapped in
	{
		let header = format!(
			"{PRELUDE}\npub trait HasRaw {{ type Raw; }}\nimpl<T, R> HasRaw for happylock::mutex::Mutex<T, R> {{ type Raw = R; }}\nimpl<T, R> HasRaw for happylock::rwlock::RwLock<T, R> {{ type Raw = R; }}\ntype RawM = <happylock::mutex::ParkingMutex<()> as HasRaw>::Raw;\ntype RawR = <happylock::rwlock::ParkingRwLock<()> as HasRaw>::Raw;\n"
		);
		let mref = "MutexRef<'static, i32, RawM>";
		let carriers: Vec<(String, String)> = vec![
			("ThreadKey".into(), "ThreadKey".into()),
			("MutexGuard".into(), "MutexGuard<'static, i32, RawM>".into()),
			("RwLockReadGuard".into(), "RwLockReadGuard<'static, i32, RawR>".into()),
			("RwLockWriteGuard".into(), "RwLockWriteGuard<'static, i32, RawR>".into()),
			("LockGuard<(MutexRef,)>".into(), format!("LockGuard<({mref},)>")),
			("LockGuard<Box<[MutexRef]>>".into(), format!("LockGuard<Box<[{mref}]>>")),
			("LockGuard<()>".into(), "LockGuard<()>".into()),
			("PoisonGuard<MutexRef>".into(), format!("PoisonGuard<'static, {mref}>")),
			("TryLockPoisonableError<MutexRef>".into(), format!("TryLockPoisonableError<'static, {mref}>")),
			("TryLockPoisonableError<()>".into(), "TryLockPoisonableError<'static, ()>".into()),
		];
		let wrappers: Vec<(&str, &str)> = vec![
			("bare", "$K"),
			("PoisonError", "PoisonError<$K>"),
			("Result<_, ThreadKey>", "Result<$K, ThreadKey>"),
			("Result<i32, _>", "Result<i32, $K>"),
			("Option", "Option<$K>"),
			("tuple", "($K, i32)"),
			("Box", "Box<$K>"),
			("Vec", "Vec<$K>"),
			("&mut", "&'static mut $K"),
		];
		for (cn, cty) in &carriers {
			for (wn, wty) in &wrappers {
				let ty = wty.replace("$K", cty);
				let prog = |bound: &str| format!("{header}fn need<X{bound}>() {{}}\npub fn probe() {{\n//<<\n    need::<{ty}>();\n//>>\n}}\n");
				v.push(Pair {
					prop: "C14".into(),
					family: "K9-key-carrying-type-is-send".into(),
					name: format!("{wn} of {cn}"),
					twin: prog(": ?Sized"),
					offending: prog(": Send"),
					std_offending: None,
				});
			}
		}
	}
	// K9c: the same with user-supplied raw locks whose guard marker is `GuardSend`
	// (a blanket `Send` impl keyed on `R::GuardMarker: Send`, as lock_api's own
	// guards have, would make key-carrying guards of such locks sendable)
	{
		let header = format!(
			"{PRELUDE}\npub struct SendRawM;\nunsafe impl lock_api::RawMutex for SendRawM {{\n    const INIT: Self = SendRawM;\n    type GuardMarker = lock_api::GuardSend;\n    fn lock(&self) {{}}\n    fn try_lock(&self) -> bool {{ true }}\n    unsafe fn unlock(&self) {{}}\n}}\npub struct SendRawR;\nunsafe impl lock_api::RawRwLock for SendRawR {{\n    const INIT: Self = SendRawR;\n    type GuardMarker = lock_api::GuardSend;\n    fn lock_shared(&self) {{}}\n    fn try_lock_shared(&self) -> bool {{ true }}\n    unsafe fn unlock_shared(&self) {{}}\n    fn lock_exclusive(&self) {{}}\n    fn try_lock_exclusive(&self) -> bool {{ true }}\n    unsafe fn unlock_exclusive(&self) {{}}\n}}\n"
		);
		let mref = "MutexRef<'static, i32, SendRawM>";
		let carriers: Vec<(String, String)> = vec![
			("MutexGuard<GuardSend raw>".into(), "MutexGuard<'static, i32, SendRawM>".into()),
			("RwLockReadGuard<GuardSend raw>".into(), "RwLockReadGuard<'static, i32, SendRawR>".into()),
			("RwLockWriteGuard<GuardSend raw>".into(), "RwLockWriteGuard<'static, i32, SendRawR>".into()),
			("LockGuard<(MutexRef<GuardSend raw>,)>".into(), format!("LockGuard<({mref},)>")),
			("LockGuard<Box<[RwLockReadRef<GuardSend raw>]>>".into(), "LockGuard<Box<[RwLockReadRef<'static, i32, SendRawR>]>>".into()),
			("PoisonGuard<MutexRef<GuardSend raw>>".into(), format!("PoisonGuard<'static, {mref}>")),
			("TryLockPoisonableError<MutexRef<GuardSend raw>>".into(), format!("TryLockPoisonableError<'static, {mref}>")),
		];
		for (cn, cty) in &carriers {
			for (wn, wty) in [("bare", "$K"), ("Option", "Option<$K>"), ("Box", "Box<$K>")] {
				let ty = wty.replace("$K", cty);
				let prog = |bound: &str| format!("{header}fn need<X{bound}>() {{}}\npub fn probe() {{\n//<<\n    need::<{ty}>();\n//>>\n}}\n");
				v.push(Pair {
					prop: "C14".into(),
					family: "K9-key-carrying-type-is-send".into(),
					name: format!("{wn} of {cn}"),
					twin: prog(": ?Sized"),
					offending: prog(": Send"),
					std_offending: None,
				});
			}
		}
	}
	// K9d: a key (or a guard that carries one) parked as the *payload* of a lock or
	// collection must not travel with it: such a lock is neither `Send` nor `Sync`
	// (`ThreadKey` is `Sync` but not `Send`, so a `Sync` bound that forgets
	// `T: Send` lets another thread take the key out through `&mut T`)
	{
		let payloads = [("ThreadKey", "ThreadKey"), ("Option<ThreadKey>", "Option<ThreadKey>")];
		let locks: Vec<(&str, &str)> = vec![
			("Mutex", "Mutex<$P>"),
			("RwLock", "RwLock<$P>"),
			("Poisonable<Mutex>", "Poisonable<Mutex<$P>>"),
			("Poisonable<RwLock>", "Poisonable<RwLock<$P>>"),
			("LockCollection<(RwLock, Mutex)>", "LockCollection<(RwLock<$P>, Mutex<i32>)>"),
			("OwnedLockCollection<[RwLock; 2]>", "OwnedLockCollection<[RwLock<$P>; 2]>"),
			("RetryingLockCollection<Vec<RwLock>>", "RetryingLockCollection<Vec<RwLock<$P>>>"),
			("&RwLock", "&'static RwLock<$P>"),
			("Arc<RwLock>", "Arc<RwLock<$P>>"),
		];
		for (pn, pty) in payloads {
			for (ln, lty) in &locks {
				let ty = lty.replace("$P", pty);
				for bound in ["Send", "Sync"] {
					// `&T: Sync` iff `T: Sync`, `&T: Send` iff `T: Sync`; Arc<T> needs both: all rejected
					let prog = |b: &str| format!("{PRELUDE}\nfn need<X{b}>() {{}}\npub fn probe() {{\n//<<\n    need::<{ty}>();\n//>>\n}}\n");
					v.push(Pair {
						prop: "C14".into(),
						family: "K9-key-carrying-payload-travels-with-its-lock".into(),
						name: format!("{ln} of {pn}: {bound}"),
						twin: prog(": ?Sized"),
						offending: prog(&format!(": {bound}")),
						std_offending: None,
					});
				}
			}
		}
	}
	// K3b: nothing that carries a key or a hold can be duplicated or conjured up
	{
		let header = format!(
			"{PRELUDE}\npub trait HasRaw {{ type Raw; }}\nimpl<T, R> HasRaw for happylock::mutex::Mutex<T, R> {{ type Raw = R; }}\nimpl<T, R> HasRaw for happylock::rwlock::RwLock<T, R> {{ type Raw = R; }}\ntype RawM = <happylock::mutex::ParkingMutex<()> as HasRaw>::Raw;\ntype RawR = <happylock::rwlock::ParkingRwLock<()> as HasRaw>::Raw;\n"
		);
		let mref = "MutexRef<'static, i32, RawM>";
		let types: Vec<(&str, String)> = vec![
			("ThreadKey", "ThreadKey".into()),
			("MutexGuard", "MutexGuard<'static, i32, RawM>".into()),
			("MutexRef", mref.into()),
			("RwLockReadGuard", "RwLockReadGuard<'static, i32, RawR>".into()),
			("RwLockWriteGuard", "RwLockWriteGuard<'static, i32, RawR>".into()),
			("RwLockReadRef", "RwLockReadRef<'static, i32, RawR>".into()),
			("RwLockWriteRef", "RwLockWriteRef<'static, i32, RawR>".into()),
			("LockGuard<(MutexRef,)>", format!("LockGuard<({mref},)>")),
			("LockGuard<i32>", "LockGuard<i32>".into()),
			("PoisonGuard<MutexRef>", format!("PoisonGuard<'static, {mref}>")),
			("PoisonRef<MutexRef>", format!("PoisonRef<'static, {mref}>")),
			("PoisonError<MutexGuard>", "PoisonError<MutexGuard<'static, i32, RawM>>".into()),
			("TryLockPoisonableError<MutexRef>", format!("TryLockPoisonableError<'static, {mref}>")),
		];
		for (tn, ty) in &types {
			for tr in ["Clone", "Copy", "Default"] {
				let prog = |bound: &str| format!("{header}fn need<X{bound}>() {{}}\npub fn probe() {{\n//<<\n    need::<{ty}>();\n//>>\n}}\n");
				v.push(Pair {
					prop: "C14".into(),
					family: format!("K3-key-or-hold-carrier-is-{tr}"),
					name: tn.to_string(),
					twin: prog(": ?Sized"),
					offending: prog(&format!(": {tr}")),
					std_offending: None,
				});
			}
		}
	}
	// K10b: a key-holding guard must not be convertible BY VALUE into the holds it
	// wraps (the key would be dropped while the holds live on)
	{
		let header = format!(
			"{PRELUDE}\npub trait HasRaw {{ type Raw; }}\nimpl<T, R> HasRaw for happylock::mutex::Mutex<T, R> {{ type Raw = R; }}\nimpl<T, R> HasRaw for happylock::rwlock::RwLock<T, R> {{ type Raw = R; }}\ntype RawM = <happylock::mutex::ParkingMutex<()> as HasRaw>::Raw;\ntype RawR = <happylock::rwlock::ParkingRwLock<()> as HasRaw>::Raw;\n"
		);
		let mref = "MutexRef<'static, i32, RawM>";
		let rref = "RwLockReadRef<'static, i32, RawR>";
		let wref = "RwLockWriteRef<'static, i32, RawR>";
		// (guard type, inner hold type)
		let guards: Vec<(String, String)> = vec![
			("MutexGuard<'static, i32, RawM>".into(), mref.into()),
			("RwLockReadGuard<'static, i32, RawR>".into(), rref.into()),
			("RwLockWriteGuard<'static, i32, RawR>".into(), wref.into()),
			(format!("LockGuard<[{mref}; 2]>"), format!("[{mref}; 2]")),
			(format!("LockGuard<Box<[{mref}]>>"), format!("Box<[{mref}]>")),
			(format!("LockGuard<({mref}, {wref})>"), format!("({mref}, {wref})")),
			(format!("LockGuard<Vec<{rref}>>"), format!("Vec<{rref}>")),
			(format!("PoisonGuard<'static, {mref}>"), mref.into()),
			(format!("PoisonGuard<'static, {mref}>"), format!("PoisonRef<'static, {mref}>")),
		];
		for (g, inner) in &guards {
			let bounds: Vec<(String, String)> = vec![
				("IntoIterator".into(), "IntoIterator".into()),
				("Into<inner>".into(), format!("Into<{inner}>")),
				("Iterator".into(), "Iterator".into()),
			];
			for (bn, b) in bounds {
				let prog = |bound: &str| format!("{header}fn need<X: {bound}>() {{}}\npub fn probe() {{\n//<<\n    need::<{g}>();\n//>>\n}}\n");
				v.push(Pair {
					prop: "C14".into(),
					family: "K10-guard-converts-by-value-into-its-holds".into(),
					name: format!("{g}: {bn}"),
					twin: prog("Sized"),
					offending: prog(&b),
					std_offending: None,
				});
			}
		}
	}
	// K11: key-less holds through the unsafe trait methods from safe code
	for (lockname, ctor) in [("Mutex", "Mutex::new(0)"), ("RwLock", "RwLock::new(0)")] {
		for (what, call) in [
			("Lockable::guard", "Lockable::guard(&m)"),
			("Lockable::data_mut", "Lockable::data_mut(&m)"),
			("RawLock::raw_write", "RawLock::raw_write(&m)"),
			("RawLock::raw_try_write", "RawLock::raw_try_write(&m)"),
			("RawLock::raw_unlock_write", "RawLock::raw_unlock_write(&m)"),
		] {
			v.push(pair_from(
				"C14",
				"K11-keyless-hold-from-safe-code",
				format!("{lockname}::{what}"),
				&wrap_fn(&format!("    let m = {ctor};\n@@\n")),
				&format!("    let _x = unsafe {{ {call} }};"),
				&format!("    let _x = {call};"),
			));
		}
	}
	v
}

pub fn families_c15(subjects: &[Subj]) -> Vec<Pair> {
	let mut v = Vec::new();
	for s in subjects.iter().copied() {
		let n = s.name();
		let decl = s.decl();
		let acq = s.acquire("s", "key");
		let first = s.first("g");
		let sm = s.scoped_write_method();
		// D1: a reference obtained from a guard outlives the guard
		v.push(pair_from(
			"C15",
			"D1-reference-outlives-guard",
			n.clone(),
			&wrap_fn(&format!("    let key = ThreadKey::get().unwrap();\n    {decl}\n    let mut g = {acq};\n    let r: {rm} i32 = {rm} {first};\n@@\n", rm = s.rmut())),
			&format!("    {}\n    drop(g);", s.use_ref("r")),
			&format!("    drop(g);\n    {}", s.use_ref("r")),
		));
		// D1b: the same through AsRef / AsMut of the guard
		if s.coll.is_none() && !s.pois {
			let conv = if s.is_read() { "AsRef::<i32>::as_ref(&g)" } else { "AsMut::<i32>::as_mut(&mut g)" };
			v.push(pair_from(
				"C15",
				"D1-reference-via-as_ref-outlives-guard",
				n.clone(),
				&wrap_fn(&format!("    let key = ThreadKey::get().unwrap();\n    {decl}\n    let mut g = {acq};\n    let r: {rm} i32 = {conv};\n@@\n", rm = s.rmut())),
				&format!("    {}\n    drop(g);", s.use_ref("r")),
				&format!("    drop(g);\n    {}", s.use_ref("r")),
			));
		}
		// D2: a guard outlives its lock
		v.push(pair_from(
			"C15",
			"D2-guard-outlives-lock",
			n.clone(),
			&wrap_fn("    let key = ThreadKey::get().unwrap();\n@@\n"),
			&format!("    {{\n    {decl}\n    let g = {acq};\n    drop(g);\n    }}"),
			&format!("    let g = {{\n    {decl}\n    {acq}\n    }};\n    drop(g);"),
		));
		// D3: a reference returned out of a scoped closure
		let fd = s.first_of_data("x");
		v.push(pair_from(
			"C15",
			"D3-reference-escapes-scoped-closure",
			n.clone(),
			&wrap_fn(&format!("    let mut key = ThreadKey::get().unwrap();\n    {decl}\n@@\n")),
			&format!("    let v: i32 = s.{sm}(&mut key, |x| {{ let r: {rm} i32 = {fd}; *r }}){sfx};", rm = s.rmut(), sfx = s.scoped_suffix()),
			&format!("    let r: {rm} i32 = s.{sm}(&mut key, |x| {{ let r: {rm} i32 = {fd}; r }}){sfx};\n    {}", s.use_ref("r"), rm = s.rmut(), sfx = s.scoped_suffix()),
		));
		// D7: &mut / by-value access to the lock while a guard lives
		if s.coll.is_none() {
			v.push(pair_from(
				"C15",
				"D7-get_mut-while-guard-alive",
				n.clone(),
				&wrap_fn(&format!("    let key = ThreadKey::get().unwrap();\n    {}\n    let g = {acq};\n@@\n", decl.replace("let s", "let mut s"))),
				"    drop(g);\n    let _x = s.get_mut();",
				"    let _x = s.get_mut();\n    drop(g);",
			));
			v.push(pair_from(
				"C15",
				"D7-into_inner-while-guard-alive",
				n.clone(),
				&wrap_fn(&format!("    let key = ThreadKey::get().unwrap();\n    {decl}\n    let g = {acq};\n@@\n")),
				"    drop(g);\n    let _x = s.into_inner();",
				"    let _x = s.into_inner();\n    drop(g);",
			));
		} else if let Some((k, _)) = s.coll {
			if k != CollK::Ref {
				v.push(pair_from(
					"C15",
					"D7-into_child-while-guard-alive",
					n.clone(),
					&wrap_fn(&format!("    let key = ThreadKey::get().unwrap();\n    {decl}\n    let g = {acq};\n@@\n")),
					"    drop(g);\n    let _x = s.into_child();",
					"    let _x = s.into_child();\n    drop(g);",
				));
			}
			if matches!(k, CollK::Owned | CollK::Retry) {
				v.push(pair_from(
					"C15",
					"D7-child_mut-while-guard-alive",
					n.clone(),
					&wrap_fn(&format!("    let key = ThreadKey::get().unwrap();\n    {}\n    let g = {acq};\n@@\n", decl.replace("let s", "let mut s"))),
					"    drop(g);\n    let _x = s.child_mut();",
					"    let _x = s.child_mut();\n    drop(g);",
				));
			}
			// D5: an owned collection never gives shared access to its members
			if k == CollK::Owned {
				for (what, off) in [
					("child", "    let _c = s.child();"),
					("as_ref", "    let _c: &_ = s.as_ref();"),
					("iter", "    for _m in s.iter() {}"),
					("ref-into-iter", "    for _m in &s {}"),
					("field", "    let _c = &s.data;"),
				] {
					v.push(pair_from(
						"C15",
						"D5-shared-access-into-owned-collection",
						format!("{n}.{what}"),
						&wrap_fn(&format!("    {}\n@@\n", decl.replace("let s", "let mut s"))),
						"    let _c = s.child_mut();",
						off,
					));
				}
			}
		}
	}
	// D6: unsafe-only entry points from safe code
	for (what, pre, call) in [
		("LockCollection::new_unchecked", "let m = Mutex::new(0);", "LockCollection::new_unchecked([&m, &m])"),
		("RefLockCollection::new_unchecked", "let m = Mutex::new(0); let d = [&m, &m];", "RefLockCollection::new_unchecked(&d)"),
		("RetryingLockCollection::new_unchecked", "let m = Mutex::new(0);", "RetryingLockCollection::new_unchecked([&m, &m])"),
		("Mutex::raw", "let m = Mutex::new(0);", "m.raw()"),
		("Sharable::read_guard", "let m = RwLock::new(0);", "Sharable::read_guard(&m)"),
		("Sharable::data_ref", "let m = RwLock::new(0);", "Sharable::data_ref(&m)"),
		("Lockable::guard(collection)", "let m = LockCollection::new([Mutex::new(0)]);", "Lockable::guard(&m)"),
		("Lockable::data_mut(poisonable)", "let m = Poisonable::new(Mutex::new(0));", "Lockable::data_mut(&m)"),
		("RawLock::raw_read", "let m = RwLock::new(0);", "RawLock::raw_read(&m)"),
		("RawLock::raw_unlock_read", "let m = RwLock::new(0);", "RawLock::raw_unlock_read(&m)"),
	] {
		v.push(pair_from(
			"C15",
			"D6-unsafe-entry-point-from-safe-code",
			what.to_string(),
			&wrap_fn(&format!("    {pre}\n@@\n")),
			&format!("    let _x = unsafe {{ {call} }};"),
			&format!("    let _x = {call};"),
		));
	}
	// D8: auto traits, differential against std
	v.extend(families_d8());
	v
}

/// (name, happylock type, std type); `$T` = payload, `$RM` / `$RR` = the default raw mutex / rwlock types
fn d8_positions() -> Vec<(String, String, String)> {
	let m = "Mutex<$T>";
	let r = "RwLock<$T>";
	let sm = "std::sync::Mutex<$T>";
	let sr = "std::sync::RwLock<$T>";
	let mut v: Vec<(String, String, String)> = vec![
		("Mutex".into(), m.into(), sm.into()),
		("RwLock".into(), r.into(), sr.into()),
		("Poisonable<Mutex>".into(), format!("Poisonable<{m}>"), sm.into()),
		("Poisonable<RwLock>".into(), format!("Poisonable<{r}>"), sr.into()),
		("MutexGuard".into(), "MutexGuard<'static, $T, $RM>".into(), "std::sync::MutexGuard<'static, $T>".into()),
		("MutexRef".into(), "MutexRef<'static, $T, $RM>".into(), "std::sync::MutexGuard<'static, $T>".into()),
		("RwLockReadGuard".into(), "RwLockReadGuard<'static, $T, $RR>".into(), "std::sync::RwLockReadGuard<'static, $T>".into()),
		("RwLockWriteGuard".into(), "RwLockWriteGuard<'static, $T, $RR>".into(), "std::sync::RwLockWriteGuard<'static, $T>".into()),
		("RwLockReadRef".into(), "RwLockReadRef<'static, $T, $RR>".into(), "std::sync::RwLockReadGuard<'static, $T>".into()),
		("RwLockWriteRef".into(), "RwLockWriteRef<'static, $T, $RR>".into(), "std::sync::RwLockWriteGuard<'static, $T>".into()),
	];
	for k in ["LockCollection", "OwnedLockCollection", "RetryingLockCollection"] {
		for (ln, l, sl) in [("Mutex", m, sm), ("RwLock", r, sr)] {
			v.push((format!("{k}<({ln},{ln})>"), format!("{k}<({l}, {l})>"), format!("({sl}, {sl})")));
			v.push((format!("{k}<Vec<{ln}>>"), format!("{k}<Vec<{l}>>"), format!("Vec<{sl}>")));
			if k != "OwnedLockCollection" {
				v.push((format!("{k}<&'static {ln}>"), format!("{k}<&'static {l}>"), format!("&'static {sl}")));
				v.push((format!("{k}<[&'static {ln};2]>"), format!("{k}<[&'static {l}; 2]>"), format!("[&'static {sl}; 2]")));
			}
		}
	}
	for (ln, l, sl) in [("Mutex", m, sm), ("RwLock", r, sr)] {
		v.push((format!("RefLockCollection<{ln}>"), format!("RefLockCollection<'static, {l}>"), format!("&'static {sl}")));
		v.push((format!("RefLockCollection<({ln},{ln})>"), format!("RefLockCollection<'static, ({l}, {l})>"), format!("&'static ({sl}, {sl})")));
		v.push((format!("&{ln}"), format!("&'static {l}"), format!("&'static {sl}")));
		v.push((format!("Arc<{ln}>"), format!("Arc<{l}>"), format!("Arc<{sl}>")));
	}
	v.push(("LockGuard<(MutexRef,)>".into(), "LockGuard<(MutexRef<'static, $T, $RM>,)>".into(), "(std::sync::MutexGuard<'static, $T>,)".into()));
	v.push((
		"LockGuard<Box<[RwLockReadRef]>>".into(),
		"LockGuard<Box<[RwLockReadRef<'static, $T, $RR>]>>".into(),
		"Box<[std::sync::RwLockReadGuard<'static, $T>]>".into(),
	));
	v.push(("PoisonGuard<MutexRef>".into(), "PoisonGuard<'static, MutexRef<'static, $T, $RM>>".into(), "std::sync::MutexGuard<'static, $T>".into()));
	v.push(("PoisonRef<RwLockWriteRef>".into(), "PoisonRef<'static, RwLockWriteRef<'static, $T, $RR>>".into(), "std::sync::RwLockWriteGuard<'static, $T>".into()));
	v.push(("PoisonError<MutexGuard>".into(), "PoisonError<MutexGuard<'static, $T, $RM>>".into(), "std::sync::PoisonError<std::sync::MutexGuard<'static, $T>>".into()));
	v
}

pub fn families_d8() -> Vec<Pair> {
	let mut v = Vec::new();
	let payloads = ["i32", "Cell<i32>", "Rc<i32>", "*const u8", "std::sync::MutexGuard<'static, i32>", "Arc<Cell<i32>>"];
	let header = format!(
		"{PRELUDE}\npub trait HasRaw {{ type Raw; }}\nimpl<T, R> HasRaw for happylock::mutex::Mutex<T, R> {{ type Raw = R; }}\nimpl<T, R> HasRaw for happylock::rwlock::RwLock<T, R> {{ type Raw = R; }}\ntype RawM = <happylock::mutex::ParkingMutex<()> as HasRaw>::Raw;\ntype RawR = <happylock::rwlock::ParkingRwLock<()> as HasRaw>::Raw;\n"
	);
	for (pname, hl, st) in d8_positions() {
		for pay in payloads {
			for tr in ["Send", "Sync"] {
				let prog = |ty: &str, payload: &str, bound: &str| {
					let ty = ty.replace("$RM", "RawM").replace("$RR", "RawR").replace("$T", payload);
					format!("{header}fn need<X{bound}>() {{}}\npub fn probe() {{\n//<<\n    need::<{ty}>();\n//>>\n}}\n")
				};
				v.push(Pair {
					prop: "C15".into(),
					family: format!("D8-auto-trait-{tr}"),
					name: format!("{pname} payload={pay}"),
					// the twin names the very same type without asking for the trait
					twin: prog(&hl, pay, ": ?Sized"),
					offending: prog(&hl, pay, &format!(": {tr}")),
					std_offending: Some(prog(&st, pay, &format!(": {tr}"))),
				});
			}
		}
	}
	v
}

/// C07, second sentence: the constructors that skip the duplicate check only
/// accept inputs that own their locks.
pub fn families_c07() -> Vec<Pair> {
	let mut v = Vec::new();
	for (lockname, ctor) in [("Mutex", "Mutex::new(0)"), ("RwLock", "RwLock::new(0)")] {
		let pre = format!("    let a = {ctor};\n    let b = {ctor};\n");
		let pre_owned = pre.clone();
		let cases: Vec<(&str, String, String)> = vec![
			("LockCollection::new(tuple of refs)", "    let c = LockCollection::new((a, b));".into(), "    let c = LockCollection::new((&a, &b));".into()),
			("LockCollection::new(array of refs)", "    let c = LockCollection::new([a, b]);".into(), "    let c = LockCollection::new([&a, &a]);".into()),
			("LockCollection::new(vec of refs)", "    let c = LockCollection::new(vec![a, b]);".into(), "    let c = LockCollection::new(vec![&a, &a]);".into()),
			("LockCollection::new_ref(&tuple of refs)", "    let d = (a, b);\n    let c = LockCollection::new_ref(&d);".into(), "    let d = (&a, &a);\n    let c = LockCollection::new_ref(&d);".into()),
			("OwnedLockCollection::new(array of refs)", "    let c = OwnedLockCollection::new([a, b]);".into(), "    let c = OwnedLockCollection::new([&a, &a]);".into()),
			("OwnedLockCollection::new(single ref)", "    let c = OwnedLockCollection::new(a);".into(), "    let c = OwnedLockCollection::new(&a);".into()),
			("RetryingLockCollection::new(vec of refs)", "    let c = RetryingLockCollection::new(vec![a, b]);".into(), "    let c = RetryingLockCollection::new(vec![&a, &a]);".into()),
			("RetryingLockCollection::new_ref(&array of refs)", "    let d = [a, b];\n    let c = RetryingLockCollection::new_ref(&d);".into(), "    let d = [&a, &a];\n    let c = RetryingLockCollection::new_ref(&d);".into()),
			("RefLockCollection::new(&array of refs)", "    let d = [a, b];\n    let c = RefLockCollection::new(&d);".into(), "    let d = [&a, &a];\n    let c = RefLockCollection::new(&d);".into()),
			("LockCollection::from(array of refs)", "    let c = LockCollection::from([a, b]);".into(), "    let c = LockCollection::from([&a, &a]);".into()),
			("OwnedLockCollection::from(tuple of refs)", "    let c = OwnedLockCollection::from((a, b));".into(), "    let c = OwnedLockCollection::from((&a, &a));".into()),
			("RetryingLockCollection::from(array of refs)", "    let c = RetryingLockCollection::from([a, b]);".into(), "    let c = RetryingLockCollection::from([&a, &a]);".into()),
			("LockCollection::from_iter(refs)", format!("    let c: LockCollection<Vec<{lockname}<i32>>> = vec![a, b].into_iter().collect();"), format!("    let c: LockCollection<Vec<&{lockname}<i32>>> = vec![&a, &a].into_iter().collect();")),
			("OwnedLockCollection::from_iter(refs)", format!("    let c: OwnedLockCollection<Vec<{lockname}<i32>>> = vec![a, b].into_iter().collect();"), format!("    let c: OwnedLockCollection<Vec<&{lockname}<i32>>> = vec![&a, &a].into_iter().collect();")),
			("RetryingLockCollection::from_iter(refs)", format!("    let c: RetryingLockCollection<Vec<{lockname}<i32>>> = vec![a, b].into_iter().collect();"), format!("    let c: RetryingLockCollection<Vec<&{lockname}<i32>>> = vec![&a, &a].into_iter().collect();")),
			("LockCollection::new(nested collection of refs)", "    let c = LockCollection::new(RetryingLockCollection::new([a, b]));".into(), "    let c = LockCollection::new(RetryingLockCollection::try_new([&a, &b]).unwrap());".into()),
			("OwnedLockCollection::new(poisonable of ref)", "    let c = OwnedLockCollection::new(Poisonable::new(a));".into(), "    let c = OwnedLockCollection::new(Poisonable::new(&a));".into()),
			("OwnedLockCollection::extend(refs)", format!("    let mut c: OwnedLockCollection<Vec<{lockname}<i32>>> = OwnedLockCollection::new(vec![a]);\n    c.extend(vec![b]);"), format!("    let mut c: OwnedLockCollection<Vec<{lockname}<i32>>> = OwnedLockCollection::new(vec![a]);\n    c.extend(vec![&b]);")),
			("unsafe impl OwnedLockable for &T is absent", "    fn need<L: Lockable>(_l: L) {}\n    need(&a);".into(), "    fn need<L: OwnedLockable>(_l: L) {}\n    need(&a);".into()),
			("&mut lock is accepted, & is not", "    let mut a = a;\n    let c = LockCollection::new([&mut a]);".into(), "    let mut a = a;\n    let c = LockCollection::new([&a]);".into()),
		];
		for (what, twin, off) in cases {
			v.push(pair_from(
				"C07",
				"C07-unchecked-ctor-needs-owned-input",
				format!("{lockname}: {what}"),
				&wrap_fn(&format!("{pre_owned}@@\n")),
				&twin,
				&off,
			));
		}
		let _ = pre;
	}
	v
}

/// Type expressions over the lock / container / collection constructors, with
/// the reference verdict "owns all of its locks" (no shared reference and no
/// by-reference collection anywhere inside).
fn lockable_type_grammar(depth: usize) -> Vec<(String, bool)> {
	let leaves: Vec<(String, bool)> = vec![("Mutex<i32>".into(), true), ("RwLock<i32>".into(), true)];
	if depth == 0 {
		return leaves;
	}
	let inner = lockable_type_grammar(depth - 1);
	let mut out = leaves;
	for (t, owned) in &inner {
		out.push((format!("&'static {t}"), false));
		out.push((format!("&'static mut {t}"), *owned));
		out.push((format!("Poisonable<{t}>"), *owned));
		out.push((format!("({t}, Mutex<i32>)"), *owned));
		out.push((format!("[{t}; 2]"), *owned));
		out.push((format!("Vec<{t}>"), *owned));
		out.push((format!("Box<[{t}]>"), *owned));
		out.push((format!("LockCollection<{t}>"), *owned));
		out.push((format!("OwnedLockCollection<{t}>"), *owned));
		out.push((format!("RetryingLockCollection<{t}>"), *owned));
		out.push((format!("RefLockCollection<'static, {t}>"), false));
	}
	out.sort();
	out.dedup();
	out
}

/// The unchecked constructors are gated on `OwnedLockable`: no type that can
/// reach a lock through a shared reference may implement it.
pub fn families_owned_lockable() -> Vec<Pair> {
	let mut v = Vec::new();
	for (ty, owned) in lockable_type_grammar(2) {
		if owned {
			continue;
		}
		let prog = |bound: &str| format!("{PRELUDE}\nfn need<X: {bound}>() {{}}\npub fn probe() {{\n//<<\n    need::<{ty}>();\n//>>\n}}\n");
		v.push(Pair {
			prop: "C07".into(),
			family: "C07-borrowing-type-is-not-OwnedLockable".into(),
			name: ty.clone(),
			twin: prog("Lockable"),
			offending: prog("OwnedLockable"),
			std_offending: None,
		});
	}
	// types that merely point at a lock and can be duplicated (or made up) in
	// safe code: if a blanket impl ever made them lockable, they still must
	// not count as owning their locks
	let m = "Mutex<i32>";
	let pointers: Vec<(String, String)> = vec![
		(String::new(), format!("std::sync::Arc<{m}>")),
		(String::new(), format!("std::rc::Rc<{m}>")),
		(String::new(), "std::sync::Arc<RwLock<i32>>".into()),
		(String::new(), "std::rc::Rc<RwLock<i32>>".into()),
		(String::new(), format!("std::sync::Arc<OwnedLockCollection<({m},)>>")),
		(String::new(), format!("std::sync::Weak<{m}>")),
		(String::new(), format!("std::cell::Ref<'static, {m}>")),
		(String::new(), format!("&'static Box<{m}>")),
		(String::new(), format!("&'static std::sync::Arc<{m}>")),
		(String::new(), format!("*const {m}")),
		(String::new(), format!("fn() -> &'static {m}")),
		(String::new(), format!("std::borrow::Cow<'static, [u8]>")),
		(
			format!("pub struct P;\nimpl std::ops::Deref for P {{ type Target = {m}; fn deref(&self) -> &{m} {{ unreachable!() }} }}\nimpl Clone for P {{ fn clone(&self) -> P {{ P }} }}\n"),
			"P".into(),
		),
		(
			format!("#[derive(Clone)]\npub struct P;\nimpl AsRef<{m}> for P {{ fn as_ref(&self) -> &{m} {{ unreachable!() }} }}\n"),
			"P".into(),
		),
		(
			format!("#[derive(Clone)]\npub struct P;\nimpl std::borrow::Borrow<{m}> for P {{ fn borrow(&self) -> &{m} {{ unreachable!() }} }}\n"),
			"P".into(),
		),
	];
	for (k, (decl, ty)) in pointers.iter().enumerate() {
		let prog = |bound: &str| format!("{PRELUDE}\n{decl}fn need<X: {bound}>() {{}}\npub fn probe() {{\n//<<\n    need::<{ty}>();\n//>>\n}}\n");
		v.push(Pair {
			prop: "C07".into(),
			family: "C07-shareable-pointer-is-not-OwnedLockable".into(),
			name: if decl.is_empty() { ty.clone() } else { format!("user pointer type #{k}") },
			twin: prog("Sized"),
			offending: prog("OwnedLockable"),
			std_offending: None,
		});
	}
	v
}

/// C01 (one thread alone): a checked collection of references cannot be
/// changed after the duplicate check.  Twin: the same accessor on a collection
/// that owns its locks.
pub fn families_mutation_after_check() -> Vec<Pair> {
	let mut v = Vec::new();
	for (lockname, ctor) in [("Mutex", "Mutex::new(0)"), ("RwLock", "RwLock::new(0)")] {
		let pre = format!("    let m = {ctor};\n    let n = {ctor};\n    let mut owned = RetryingLockCollection::new(vec![{ctor}]);\n    let mut byref = RetryingLockCollection::try_new(vec![&m]).unwrap();\n");
		let cases: Vec<(&str, String, String)> = vec![
			("child_mut().push", format!("    owned.child_mut().push({ctor});"), "    byref.child_mut().push(&m);".into()),
			("as_mut().push", format!("    let v: &mut Vec<_> = owned.as_mut();\n    v.push({ctor});"), "    let v: &mut Vec<_> = byref.as_mut();\n    v.push(&m);".into()),
			("iter_mut", "    for x in owned.iter_mut() { let _ = x; }".into(), "    for x in byref.iter_mut() { *x = &m; }".into()),
			("&mut iteration", "    for x in &mut owned { let _ = x; }".into(), "    for x in &mut byref { *x = &m; }".into()),
			("extend", format!("    owned.extend(vec![{ctor}]);"), "    byref.extend(vec![&m]);".into()),
			("boxed has no child_mut", "    let b = LockCollection::try_new(vec![&m, &n]).unwrap();\n    let _c = b.child();".into(), "    let mut b = LockCollection::try_new(vec![&m, &n]).unwrap();\n    b.child_mut().push(&m);".into()),
			("ref has no child_mut", "    let d = vec![&m, &n];\n    let r = RefLockCollection::try_new(&d).unwrap();\n    let _c = r.child();".into(), "    let d = vec![&m, &n];\n    let mut r = RefLockCollection::try_new(&d).unwrap();\n    r.child_mut().push(&m);".into()),
		];
		for (what, twin, off) in cases {
			v.push(pair_from("C01", "C01-mutation-after-check", format!("{lockname}: {what}"), &wrap_fn(&format!("{pre}@@\n")), &twin, &off));
		}
		// a boxed collection caches its sorted lock list at construction: no route
		// may hand out `&mut Vec<lock>` of its child, not even when it owns the locks
		let twin_owned = "    let v: &mut Vec<_> = owned.as_mut();\n    let _ = v.len();".to_string();
		let pre2 = format!("{pre}    let mut boxed = LockCollection::new(vec![{ctor}]);\n");
		let routes: Vec<(&str, String)> = vec![
			("boxed(owned content): as_mut() -> &mut Vec", format!("    let v: &mut Vec<{lockname}<i32>> = boxed.as_mut();\n    v.push({ctor});")),
			("boxed(owned content): child_mut() -> &mut Vec", format!("    let v: &mut Vec<{lockname}<i32>> = boxed.child_mut();\n    v.push({ctor});")),
			("boxed(owned content): BorrowMut<Vec>", format!("    let v: &mut Vec<{lockname}<i32>> = std::borrow::BorrowMut::borrow_mut(&mut boxed);\n    v.push({ctor});")),
			("boxed(owned content): DerefMut to Vec", format!("    let v: &mut Vec<{lockname}<i32>> = &mut *boxed;\n    v.push({ctor});")),
			("boxed(owned content): From<&mut LockCollection> for &mut Vec", format!("    let v: &mut Vec<{lockname}<i32>> = (&mut boxed).into();\n    v.push({ctor});")),
		];
		for (what, off) in routes {
			v.push(pair_from("C01", "C01-mutation-after-check", format!("{lockname}: {what}"), &wrap_fn(&format!("{pre2}@@\n")), &twin_owned, &off));
		}
	}
	v
}

/// pick `n` pairs pseudo-randomly (proptest-style byte stream) without repetition
pub fn sample_indices(src: &mut Src<'_>, total: usize, n: usize) -> Vec<usize> {
	let mut idx: Vec<usize> = (0..total).collect();
	let mut out = Vec::new();
	while out.len() < n && !idx.is_empty() {
		let k = src.pick(idx.len());
		out.push(idx.remove(k));
	}
	out
}
