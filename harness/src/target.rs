//! Object-safe driver interface over every concrete happylock type the
//! harness instantiates: `DynTarget` (something a thread can acquire) and
//! `DynGuard` (a live key-holding guard).  All methods call happylock's public
//! API on `&'static` values that live in the per-execution arena.

use std::cell::RefCell;
use std::fmt::Debug;

use happylock::collection::{
	BoxedLockCollection as Boxed, LockGuard, OwnedLockCollection as Owned,
	RefLockCollection as RefC, RetryingLockCollection as Retry,
};
use happylock::lockable::{Lockable, RawLock, Sharable};
use happylock::poisonable::{PoisonGuard, Poisonable, TryLockPoisonableError};
use happylock::{Keyable, ThreadKey};

use crate::leaves::{Leaves, Visitor};
use crate::types::*;

pub enum KeyArg<'k> {
	Lent(&'k mut ThreadKey),
	Owned(ThreadKey),
}

pub enum ScopedRes {
	/// the call returned normally after acquiring
	Ran,
	/// scoped_try_* returned Err; the owned key (if one was given) comes back
	Refused(Option<ThreadKey>),
}

pub trait DynGuard {
	fn visit(&mut self, f: &mut Visitor<'_>);
	fn unlock(self: Box<Self>) -> ThreadKey;
	fn forget(self: Box<Self>);
	fn debug_fmt(&self) -> String;
	fn is_read(&self) -> bool;
	/// for guards of a top-level Poisonable: did the acquisition return Err(poisoned)?
	fn top_poisoned(&self) -> Option<bool> {
		None
	}
}

pub type Body<'b> = dyn FnMut(&mut dyn Leaves) + 'b;

pub trait DynTarget: Sync + Send {
	fn lock(&'static self, key: ThreadKey) -> Box<dyn DynGuard>;
	fn try_lock(&'static self, key: ThreadKey) -> Result<Box<dyn DynGuard>, ThreadKey>;
	fn read(&'static self, key: ThreadKey) -> Box<dyn DynGuard>;
	fn try_read(&'static self, key: ThreadKey) -> Result<Box<dyn DynGuard>, ThreadKey>;
	fn scoped(&'static self, read: bool, try_: bool, key: KeyArg<'_>, body: &mut Body<'_>) -> ScopedRes;
	fn debug_fmt(&self) -> String;
	/// `{:?}` into an arbitrary sink (which may fail part-way)
	fn debug_fmt_to(&self, w: &mut dyn std::fmt::Write) -> std::fmt::Result;
	/// child()/iter()/as_ref()/&coll iteration where the type has them; returns
	/// how many accessors were exercised
	fn accessors(&'static self) -> usize {
		0
	}
	fn is_poisoned(&self) -> Option<bool> {
		None
	}
	fn clear_poison(&self) -> bool {
		false
	}
	/// `lockable::RawLock::poison` (single locks only); false = not applicable
	fn kill(&self) -> bool {
		false
	}
}

// ---------------------------------------------------------------------------
// collections

/// Static view of the four collection kinds' key-taking API at the 'static
/// instantiation of the GATs.
pub trait Kind: Sync + Send + Debug + 'static {
	type L: Lockable + Sharable + 'static;
	fn k_lock(&'static self, key: ThreadKey) -> LockGuard<<Self::L as Lockable>::Guard<'static>>;
	fn k_try_lock(&'static self, key: ThreadKey)
		-> Result<LockGuard<<Self::L as Lockable>::Guard<'static>>, ThreadKey>;
	fn k_unlock(g: LockGuard<<Self::L as Lockable>::Guard<'static>>) -> ThreadKey;
	fn k_read(&'static self, key: ThreadKey) -> LockGuard<<Self::L as Sharable>::ReadGuard<'static>>;
	fn k_try_read(&'static self, key: ThreadKey)
		-> Result<LockGuard<<Self::L as Sharable>::ReadGuard<'static>>, ThreadKey>;
	fn k_unlock_read(g: LockGuard<<Self::L as Sharable>::ReadGuard<'static>>) -> ThreadKey;
	fn k_scoped_lock<K: Keyable, Ret>(
		&'static self,
		key: K,
		f: impl Fn(<Self::L as Lockable>::DataMut<'static>) -> Ret,
	) -> Ret;
	fn k_scoped_try_lock<K: Keyable, Ret>(
		&'static self,
		key: K,
		f: impl Fn(<Self::L as Lockable>::DataMut<'static>) -> Ret,
	) -> Result<Ret, K>;
	fn k_scoped_read<K: Keyable, Ret>(
		&'static self,
		key: K,
		f: impl Fn(<Self::L as Sharable>::DataRef<'static>) -> Ret,
	) -> Ret;
	fn k_scoped_try_read<K: Keyable, Ret>(
		&'static self,
		key: K,
		f: impl Fn(<Self::L as Sharable>::DataRef<'static>) -> Ret,
	) -> Result<Ret, K>;
	fn k_accessors(&'static self) -> usize;
}

macro_rules! impl_kind {
	($ty:ty, [$($extra:tt)*], $acc:expr) => {
		impl<L: Lockable + Sharable + Sync + Send + Debug + 'static $($extra)*> Kind for $ty {
			type L = L;
			fn k_lock(&'static self, key: ThreadKey) -> LockGuard<L::Guard<'static>> {
				<$ty>::lock(self, key)
			}
			fn k_try_lock(&'static self, key: ThreadKey) -> Result<LockGuard<L::Guard<'static>>, ThreadKey> {
				<$ty>::try_lock(self, key)
			}
			fn k_unlock(g: LockGuard<L::Guard<'static>>) -> ThreadKey {
				<$ty>::unlock(g)
			}
			fn k_read(&'static self, key: ThreadKey) -> LockGuard<L::ReadGuard<'static>> {
				<$ty>::read(self, key)
			}
			fn k_try_read(&'static self, key: ThreadKey) -> Result<LockGuard<L::ReadGuard<'static>>, ThreadKey> {
				<$ty>::try_read(self, key)
			}
			fn k_unlock_read(g: LockGuard<L::ReadGuard<'static>>) -> ThreadKey {
				<$ty>::unlock_read(g)
			}
			fn k_scoped_lock<K: Keyable, Ret>(&'static self, key: K, f: impl Fn(L::DataMut<'static>) -> Ret) -> Ret {
				<$ty>::scoped_lock(self, key, f)
			}
			fn k_scoped_try_lock<K: Keyable, Ret>(
				&'static self,
				key: K,
				f: impl Fn(L::DataMut<'static>) -> Ret,
			) -> Result<Ret, K> {
				<$ty>::scoped_try_lock(self, key, f)
			}
			fn k_scoped_read<K: Keyable, Ret>(&'static self, key: K, f: impl Fn(L::DataRef<'static>) -> Ret) -> Ret {
				<$ty>::scoped_read(self, key, f)
			}
			fn k_scoped_try_read<K: Keyable, Ret>(
				&'static self,
				key: K,
				f: impl Fn(L::DataRef<'static>) -> Ret,
			) -> Result<Ret, K> {
				<$ty>::scoped_try_read(self, key, f)
			}
			fn k_accessors(&'static self) -> usize {
				#[allow(clippy::redundant_closure_call)]
				($acc)(self)
			}
		}
	};
}

impl_kind!(Boxed<L>, [], |s: &'static Boxed<L>| {
	let _c: &L = s.child();
	1
});
impl_kind!(RefC<'static, L>, [], |s: &'static RefC<'static, L>| {
	let _c: &L = s.child();
	1
});
impl_kind!(Retry<L>, [], |s: &'static Retry<L>| {
	let _c: &L = s.child();
	1
});
impl_kind!(Owned<L>, [+ happylock::lockable::OwnedLockable], |_s: &'static Owned<L>| 0);

struct CollGuard<K: Kind> {
	g: LockGuard<<K::L as Lockable>::Guard<'static>>,
}
struct CollRGuard<K: Kind> {
	g: LockGuard<<K::L as Sharable>::ReadGuard<'static>>,
}

impl<K: Kind> DynGuard for CollGuard<K>
where
	<K::L as Lockable>::Guard<'static>: Leaves + Debug,
{
	fn visit(&mut self, f: &mut Visitor<'_>) {
		let mut pois = Vec::new();
		self.g.visit(&mut pois, f)
	}
	fn unlock(self: Box<Self>) -> ThreadKey {
		K::k_unlock(self.g)
	}
	fn forget(self: Box<Self>) {
		std::mem::forget(self.g)
	}
	fn debug_fmt(&self) -> String {
		format!("{:?}", self.g)
	}
	fn is_read(&self) -> bool {
		false
	}
}

impl<K: Kind> DynGuard for CollRGuard<K>
where
	<K::L as Sharable>::ReadGuard<'static>: Leaves + Debug,
{
	fn visit(&mut self, f: &mut Visitor<'_>) {
		let mut pois = Vec::new();
		self.g.visit(&mut pois, f)
	}
	fn unlock(self: Box<Self>) -> ThreadKey {
		K::k_unlock_read(self.g)
	}
	fn forget(self: Box<Self>) {
		std::mem::forget(self.g)
	}
	fn debug_fmt(&self) -> String {
		format!("{:?}", self.g)
	}
	fn is_read(&self) -> bool {
		true
	}
}

impl<K: Kind> DynTarget for K
where
	<K::L as Lockable>::Guard<'static>: Leaves + Debug,
	<K::L as Sharable>::ReadGuard<'static>: Leaves + Debug,
	<K::L as Lockable>::DataMut<'static>: Leaves,
	<K::L as Sharable>::DataRef<'static>: Leaves,
{
	fn lock(&'static self, key: ThreadKey) -> Box<dyn DynGuard> {
		Box::new(CollGuard::<K> { g: self.k_lock(key) })
	}
	fn try_lock(&'static self, key: ThreadKey) -> Result<Box<dyn DynGuard>, ThreadKey> {
		match self.k_try_lock(key) {
			Ok(g) => Ok(Box::new(CollGuard::<K> { g })),
			Err(k) => Err(k),
		}
	}
	fn read(&'static self, key: ThreadKey) -> Box<dyn DynGuard> {
		Box::new(CollRGuard::<K> { g: self.k_read(key) })
	}
	fn try_read(&'static self, key: ThreadKey) -> Result<Box<dyn DynGuard>, ThreadKey> {
		match self.k_try_read(key) {
			Ok(g) => Ok(Box::new(CollRGuard::<K> { g })),
			Err(k) => Err(k),
		}
	}
	fn scoped(&'static self, read: bool, try_: bool, key: KeyArg<'_>, body: &mut Body<'_>) -> ScopedRes {
		let cell = RefCell::new(body);
		macro_rules! go {
			($plain:ident, $try:ident) => {
				match (try_, key) {
					(false, KeyArg::Lent(k)) => {
						self.$plain(k, |mut d| (cell.borrow_mut())(&mut d));
						ScopedRes::Ran
					}
					(false, KeyArg::Owned(k)) => {
						self.$plain(k, |mut d| (cell.borrow_mut())(&mut d));
						ScopedRes::Ran
					}
					(true, KeyArg::Lent(k)) => match self.$try(k, |mut d| (cell.borrow_mut())(&mut d)) {
						Ok(()) => ScopedRes::Ran,
						Err(_) => ScopedRes::Refused(None),
					},
					(true, KeyArg::Owned(k)) => match self.$try(k, |mut d| (cell.borrow_mut())(&mut d)) {
						Ok(()) => ScopedRes::Ran,
						Err(k) => ScopedRes::Refused(Some(k)),
					},
				}
			};
		}
		if read {
			go!(k_scoped_read, k_scoped_try_read)
		} else {
			go!(k_scoped_lock, k_scoped_try_lock)
		}
	}
	fn debug_fmt(&self) -> String {
		format!("{:?}", self)
	}
	fn debug_fmt_to(&self, w: &mut dyn std::fmt::Write) -> std::fmt::Result {
		write!(w, "{:?}", self)
	}
	fn accessors(&'static self) -> usize {
		self.k_accessors()
	}
}

// ---------------------------------------------------------------------------
// single locks


struct MGuard(happylock::mutex::MutexGuard<'static, P, crate::vlock::VMutex>);
struct RWGuard(happylock::rwlock::RwLockWriteGuard<'static, P, crate::vlock::VRw>);
struct RRGuard(happylock::rwlock::RwLockReadGuard<'static, P, crate::vlock::VRw>);

macro_rules! simple_guard {
	($t:ident, $unlock:expr, $read:expr) => {
		impl DynGuard for $t {
			fn visit(&mut self, f: &mut Visitor<'_>) {
				let mut pois = Vec::new();
				self.0.visit(&mut pois, f)
			}
			fn unlock(self: Box<Self>) -> ThreadKey {
				#[allow(clippy::redundant_closure_call)]
				($unlock)(self.0)
			}
			fn forget(self: Box<Self>) {
				std::mem::forget(self.0)
			}
			fn debug_fmt(&self) -> String {
				format!("{:?}", self.0)
			}
			fn is_read(&self) -> bool {
				$read
			}
		}
	};
}
simple_guard!(MGuard, M::unlock, false);
simple_guard!(RWGuard, R::unlock_write, false);
simple_guard!(RRGuard, R::unlock_read, true);

impl DynTarget for M {
	fn lock(&'static self, key: ThreadKey) -> Box<dyn DynGuard> {
		Box::new(MGuard(M::lock(self, key)))
	}
	fn try_lock(&'static self, key: ThreadKey) -> Result<Box<dyn DynGuard>, ThreadKey> {
		match M::try_lock(self, key) {
			Ok(g) => Ok(Box::new(MGuard(g))),
			Err(k) => Err(k),
		}
	}
	fn read(&'static self, _key: ThreadKey) -> Box<dyn DynGuard> {
		unreachable!("harness bug: read on a Mutex")
	}
	fn try_read(&'static self, _key: ThreadKey) -> Result<Box<dyn DynGuard>, ThreadKey> {
		unreachable!("harness bug: read on a Mutex")
	}
	fn scoped(&'static self, read: bool, try_: bool, key: KeyArg<'_>, body: &mut Body<'_>) -> ScopedRes {
		assert!(!read, "harness bug: read on a Mutex");
		match (try_, key) {
			(false, KeyArg::Lent(k)) => {
				self.scoped_lock(k, |mut d| body(&mut d));
				ScopedRes::Ran
			}
			(false, KeyArg::Owned(k)) => {
				self.scoped_lock(k, |mut d| body(&mut d));
				ScopedRes::Ran
			}
			(true, KeyArg::Lent(k)) => match self.scoped_try_lock(k, |mut d| body(&mut d)) {
				Ok(()) => ScopedRes::Ran,
				Err(_) => ScopedRes::Refused(None),
			},
			(true, KeyArg::Owned(k)) => match self.scoped_try_lock(k, |mut d| body(&mut d)) {
				Ok(()) => ScopedRes::Ran,
				Err(k) => ScopedRes::Refused(Some(k)),
			},
		}
	}
	fn debug_fmt(&self) -> String {
		format!("{:?}", self)
	}
	fn debug_fmt_to(&self, w: &mut dyn std::fmt::Write) -> std::fmt::Result {
		write!(w, "{:?}", self)
	}
	fn kill(&self) -> bool {
		happylock::lockable::RawLock::poison(self);
		true
	}
}

impl DynTarget for R {
	fn lock(&'static self, key: ThreadKey) -> Box<dyn DynGuard> {
		Box::new(RWGuard(self.write(key)))
	}
	fn try_lock(&'static self, key: ThreadKey) -> Result<Box<dyn DynGuard>, ThreadKey> {
		match self.try_write(key) {
			Ok(g) => Ok(Box::new(RWGuard(g))),
			Err(k) => Err(k),
		}
	}
	fn read(&'static self, key: ThreadKey) -> Box<dyn DynGuard> {
		Box::new(RRGuard(R::read(self, key)))
	}
	fn try_read(&'static self, key: ThreadKey) -> Result<Box<dyn DynGuard>, ThreadKey> {
		match R::try_read(self, key) {
			Ok(g) => Ok(Box::new(RRGuard(g))),
			Err(k) => Err(k),
		}
	}
	fn scoped(&'static self, read: bool, try_: bool, key: KeyArg<'_>, body: &mut Body<'_>) -> ScopedRes {
		let cell = RefCell::new(body);
		macro_rules! go {
			($plain:ident, $try:ident) => {
				match (try_, key) {
					(false, KeyArg::Lent(k)) => {
						self.$plain(k, |mut d| (cell.borrow_mut())(&mut d));
						ScopedRes::Ran
					}
					(false, KeyArg::Owned(k)) => {
						self.$plain(k, |mut d| (cell.borrow_mut())(&mut d));
						ScopedRes::Ran
					}
					(true, KeyArg::Lent(k)) => match self.$try(k, |mut d| (cell.borrow_mut())(&mut d)) {
						Ok(()) => ScopedRes::Ran,
						Err(_) => ScopedRes::Refused(None),
					},
					(true, KeyArg::Owned(k)) => match self.$try(k, |mut d| (cell.borrow_mut())(&mut d)) {
						Ok(()) => ScopedRes::Ran,
						Err(k) => ScopedRes::Refused(Some(k)),
					},
				}
			};
		}
		if read {
			go!(scoped_read, scoped_try_read)
		} else {
			go!(scoped_write, scoped_try_write)
		}
	}
	fn debug_fmt(&self) -> String {
		format!("{:?}", self)
	}
	fn debug_fmt_to(&self, w: &mut dyn std::fmt::Write) -> std::fmt::Result {
		write!(w, "{:?}", self)
	}
	fn kill(&self) -> bool {
		happylock::lockable::RawLock::poison(self);
		true
	}
}

// ---------------------------------------------------------------------------
// Poisonable<L> as a top-level target

// the result of the acquisition is kept as it came: a poisoned acquisition
// stays inside its `PoisonError` (reached through `get_mut` / `get_ref`,
// released by dropping the error, or by `into_inner` + the unlock function)
type PRes<G> = Result<G, happylock::poisonable::PoisonError<G>>;

fn pres_mut<G>(r: &mut PRes<G>) -> &mut G {
	match r {
		Ok(g) => g,
		Err(e) => e.get_mut(),
	}
}
fn pres_ref<G>(r: &PRes<G>) -> &G {
	match r {
		Ok(g) => g,
		Err(e) => e.get_ref(),
	}
}
fn pres_into<G>(r: PRes<G>) -> G {
	match r {
		Ok(g) => g,
		Err(e) => e.into_inner(),
	}
}

struct PGuard<L: Lockable + RawLock + 'static> {
	g: PRes<PoisonGuard<'static, L::Guard<'static>>>,
	was_err: bool,
}
struct PRGuard<L: Sharable + RawLock + 'static> {
	g: PRes<PoisonGuard<'static, L::ReadGuard<'static>>>,
	was_err: bool,
}

impl<L: Lockable + RawLock + 'static> DynGuard for PGuard<L>
where
	L::Guard<'static>: Leaves + Debug,
{
	fn visit(&mut self, f: &mut Visitor<'_>) {
		let mut pois = vec![self.was_err];
		pres_mut(&mut self.g).visit(&mut pois, f)
	}
	fn unlock(self: Box<Self>) -> ThreadKey {
		Poisonable::<L>::unlock(pres_into(self.g))
	}
	fn forget(self: Box<Self>) {
		std::mem::forget(self.g)
	}
	fn debug_fmt(&self) -> String {
		format!("{:?}", pres_ref(&self.g))
	}
	fn is_read(&self) -> bool {
		false
	}
	fn top_poisoned(&self) -> Option<bool> {
		Some(self.was_err)
	}
}

impl<L: Sharable + RawLock + 'static> DynGuard for PRGuard<L>
where
	L::ReadGuard<'static>: Leaves + Debug,
{
	fn visit(&mut self, f: &mut Visitor<'_>) {
		let mut pois = vec![self.was_err];
		pres_mut(&mut self.g).visit(&mut pois, f)
	}
	fn unlock(self: Box<Self>) -> ThreadKey {
		Poisonable::<L>::unlock_read(pres_into(self.g))
	}
	fn forget(self: Box<Self>) {
		std::mem::forget(self.g)
	}
	fn debug_fmt(&self) -> String {
		format!("{:?}", pres_ref(&self.g))
	}
	fn is_read(&self) -> bool {
		true
	}
	fn top_poisoned(&self) -> Option<bool> {
		Some(self.was_err)
	}
}

macro_rules! pois_scoped {
	($self:ident, $try_:ident, $key:ident, $body:ident, $plain:ident, $trym:ident) => {{
		let cell = RefCell::new($body);
		match ($try_, $key) {
			(false, KeyArg::Lent(k)) => {
				$self.$plain(k, |mut d| (cell.borrow_mut())(&mut d));
				ScopedRes::Ran
			}
			(false, KeyArg::Owned(k)) => {
				$self.$plain(k, |mut d| (cell.borrow_mut())(&mut d));
				ScopedRes::Ran
			}
			(true, KeyArg::Lent(k)) => match $self.$trym(k, |mut d| (cell.borrow_mut())(&mut d)) {
				Ok(()) => ScopedRes::Ran,
				Err(_) => ScopedRes::Refused(None),
			},
			(true, KeyArg::Owned(k)) => match $self.$trym(k, |mut d| (cell.borrow_mut())(&mut d)) {
				Ok(()) => ScopedRes::Ran,
				Err(k) => ScopedRes::Refused(Some(k)),
			},
		}
	}};
}

macro_rules! pois_target {
	($inner:ty, rw) => {
		pois_target!(@impl $inner, {
			fn read(&'static self, key: ThreadKey) -> Box<dyn DynGuard> {
				match Poisonable::read(self, key) {
					Ok(g) => Box::new(PRGuard::<$inner> { g: Ok(g), was_err: false }),
					Err(e) => Box::new(PRGuard::<$inner> { g: Err(e), was_err: true }),
				}
			}
			fn try_read(&'static self, key: ThreadKey) -> Result<Box<dyn DynGuard>, ThreadKey> {
				match Poisonable::try_read(self, key) {
					Ok(g) => Ok(Box::new(PRGuard::<$inner> { g: Ok(g), was_err: false })),
					Err(TryLockPoisonableError::Poisoned(e)) => {
						Ok(Box::new(PRGuard::<$inner> { g: Err(e), was_err: true }))
					}
					Err(TryLockPoisonableError::WouldBlock(k)) => Err(k),
				}
			}
		}, |s: &'static Poisonable<$inner>, try_: bool, key: KeyArg<'_>, body: &mut Body<'_>| {
			pois_scoped!(s, try_, key, body, scoped_read, scoped_try_read)
		});
	};
	($inner:ty, w) => {
		pois_target!(@impl $inner, {
			fn read(&'static self, _key: ThreadKey) -> Box<dyn DynGuard> {
				unreachable!("harness bug: read on a Mutex")
			}
			fn try_read(&'static self, _key: ThreadKey) -> Result<Box<dyn DynGuard>, ThreadKey> {
				unreachable!("harness bug: read on a Mutex")
			}
		}, |_s: &'static Poisonable<$inner>, _try: bool, _key: KeyArg<'_>, _body: &mut Body<'_>| -> ScopedRes {
			unreachable!("harness bug: read on a Mutex")
		});
	};
	(@impl $inner:ty, { $($readfns:tt)* }, $scoped_read:expr) => {
		impl DynTarget for Poisonable<$inner> {
			fn lock(&'static self, key: ThreadKey) -> Box<dyn DynGuard> {
				match Poisonable::lock(self, key) {
					Ok(g) => Box::new(PGuard::<$inner> { g: Ok(g), was_err: false }),
					Err(e) => Box::new(PGuard::<$inner> { g: Err(e), was_err: true }),
				}
			}
			fn try_lock(&'static self, key: ThreadKey) -> Result<Box<dyn DynGuard>, ThreadKey> {
				match Poisonable::try_lock(self, key) {
					Ok(g) => Ok(Box::new(PGuard::<$inner> { g: Ok(g), was_err: false })),
					Err(TryLockPoisonableError::Poisoned(e)) => {
						Ok(Box::new(PGuard::<$inner> { g: Err(e), was_err: true }))
					}
					Err(TryLockPoisonableError::WouldBlock(k)) => Err(k),
				}
			}
			$($readfns)*
			fn scoped(&'static self, read: bool, try_: bool, key: KeyArg<'_>, body: &mut Body<'_>) -> ScopedRes {
				if read {
					#[allow(clippy::redundant_closure_call)]
					($scoped_read)(self, try_, key, body)
				} else {
					pois_scoped!(self, try_, key, body, scoped_lock, scoped_try_lock)
				}
			}
			fn debug_fmt(&self) -> String {
				format!("{:?}", self)
			}
			fn debug_fmt_to(&self, w: &mut dyn std::fmt::Write) -> std::fmt::Result {
				write!(w, "{:?}", self)
			}
			fn is_poisoned(&self) -> Option<bool> {
				Some(Poisonable::is_poisoned(self))
			}
			fn clear_poison(&self) -> bool {
				Poisonable::clear_poison(self);
				true
			}
			fn kill(&self) -> bool {
				happylock::lockable::RawLock::poison(self);
				true
			}
		}
	};
}

pois_target!(M, w);
pois_target!(PM, w);
pois_target!(R, rw);
pois_target!(PR, rw);
pois_target!(Boxed<Vec<Mem>>, rw);
pois_target!(Retry<Vec<Mem>>, rw);
pois_target!(RefC<'static, Vec<Mem>>, rw);
pois_target!(Owned<Vec<OMem>>, rw);

// ---------------------------------------------------------------------------
// Debug for the member enums (pure delegation, so `{:?}` of a collection
// reaches happylock's Debug impls of the members)

macro_rules! enum_debug {
	($t:ident : $($v:ident),*) => {
		impl Debug for $t {
			fn fmt(&self, f: &mut std::fmt::Formatter<'_>) -> std::fmt::Result {
				match self {
					$($t::$v(x) => Debug::fmt(x, f),)*
				}
			}
		}
	};
}
enum_debug!(Mem: M, R, PM, PR, PPM, PPR, WM, WR, O, V, BoxedV, RefV, RetryV, OwnedO, OwnedZ, BoxedO, RetryO, RefO, PBoxedV, PRetryV, POwnedO);
enum_debug!(OMem: M, R, PM, PR, PPM, PPR, Owned, Boxed, Retry, POwned);
enum_debug!(MemG: M, R, PM, PR, PPM, PPR, O, V, VO, PV, PVO);
enum_debug!(OMemG: M, R, PM, PR, PPM, PPR, VO, PVO);
enum_debug!(MemRG: R, PR, PPR, O, V, VO, PV, PVO);
enum_debug!(OMemRG: R, PR, PPR, VO, PVO);
