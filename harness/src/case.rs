//! Serialisable cases: what the generators produce, what replay files hold.

use crate::exec::{FaultPlan, Lid, Tid};
use crate::world::{KindTag, MemberSpec, TargetRef, WorldSpec};
use serde::{Deserialize, Serialize};

#[derive(Clone, Copy, Debug, PartialEq, Eq, Hash, Serialize, Deserialize)]
pub enum ReleaseHow {
	Drop,
	UnlockFn,
	Forget,
}

#[derive(Clone, Debug, PartialEq, Eq, Hash, Serialize, Deserialize)]
pub enum BodyOp {
	/// visit every protected value through the guard / closure argument
	Touch,
	/// ThreadKey::get() inside the section
	ProbeKey,
	/// scheduling point (CONC)
	Yield,
	/// `{:?}` of some target while the section is live
	DebugTarget(TargetRef),
	/// `{:?}` of the live guard (guard sections only)
	DebugGuard,
	/// panic with a private payload
	Panic,
}

#[derive(Clone, Copy, Debug, PartialEq, Eq, Hash, Serialize, Deserialize)]
pub enum TempThen {
	Drop,
	IntoChild,
	/// by-value iteration (consumes the collection), every item dropped
	IntoIter,
	/// `for _ in &collection`, `child()`, `{:?}`, then drop
	Inspect,
	/// `child_mut()` / `AsMut` where the kind offers it, else as `Inspect`
	Borrow,
}

#[derive(Clone, Debug, PartialEq, Eq, Hash, Serialize, Deserialize)]
pub enum Step {
	GetKey,
	DropKey,
	ForgetKey,
	Acquire { target: TargetRef, read: bool, try_: bool },
	/// run these operations while the guard is alive (Panic = the guard is
	/// dropped by the unwinding)
	GuardOps { ops: Vec<BodyOp> },
	Release { how: ReleaseHow },
	Scoped { target: TargetRef, read: bool, try_: bool, owned_key: bool, body: Vec<BodyOp> },
	/// `transient`: the phantom holder lets go as soon as the thread under test
	/// blocks on the lock (a concurrent holder that finishes while we wait)
	PhantomHold {
		leaf: Lid,
		shared: bool,
		#[serde(default)]
		transient: bool,
	},
	PhantomRelease { leaf: Lid },
	IsPoisoned { target: TargetRef },
	ClearPoison { target: TargetRef },
	/// `{:?}` of a target; with `cap` the output goes into a sink that fails
	/// after that many bytes (formatting is abandoned part-way)
	Debug {
		target: TargetRef,
		#[serde(default)]
		cap: Option<u16>,
		/// 0: payloads print normally, 1: their Debug returns Err, 2: it panics
		#[serde(default)]
		payload: u8,
	},
	Accessors { target: TargetRef },
	/// build a temporary by-reference collection over existing members with a
	/// checked constructor, then drop it / take it apart again
	TempColl { kind: KindTag, members: Vec<MemberSpec>, then: TempThen },
	/// build a checked retrying collection over `members`, then add `pushed`
	/// through the safe post-construction accessors (child_mut / AsMut), then
	/// lock (or read) it and release it again
	MutateThenLock { members: Vec<MemberSpec>, pushed: MemberSpec, via_as_mut: bool, read: bool },
	/// run `inner` (a Scoped step) from a destructor while this thread is
	/// unwinding from an earlier panic (`std::thread::panicking()` is true); a
	/// panic of the closure is caught inside the destructor
	UnwindingDrop { inner: Box<Step> },
	/// move the thread's key into the data of a lock owned by a freshly built
	/// container (`cont`), then end the container's life by `route` (0 drop,
	/// 1 mem::forget, 2 into_inner, 3 into_child / get_mut): the key is alive
	/// exactly as long as the value that owns it
	ParkKey { cont: u8, route: u8 },
	/// ask for the key `n` times in a row while it is alive
	ProbeKeyMany { n: u32 },
	/// build an OWNED lock or collection over fresh verification locks
	/// (`shape`), optionally leak a guard of it with mem::forget and / or kill
	/// its locks, then run a non-acquiring operation that needs ownership or
	/// `&mut` (0 get_mut, 1 into_inner, 2 into_child, 3 `{:?}`)
	OwnedTemp { shape: u8, leak: bool, kill: bool, op: u8 },
	/// `lockable::RawLock::poison(&lock)` on stand-alone leaf `leaf` (a safe public
	/// call): from now on blocking acquisitions of it panic and try_* fails
	Kill { leaf: usize },
	/// after an injected raw fault: every lock whose raw operation panicked
	/// must refuse try_* (Err) and blocking acquisition (panic).  Stand-alone
	/// leaves are probed directly, by-value leaves through `fallback`.
	ProbeFaulted { fallback: TargetRef },
}

#[derive(Clone, Debug, PartialEq, Serialize, Deserialize)]
pub struct FaultSpec {
	/// arm the plan for the duration of this step (index into `steps`)
	pub at_step: usize,
	pub plan: FaultPlan,
}

#[derive(Clone, Debug, PartialEq, Serialize, Deserialize, Default)]
pub struct SeqCase {
	pub world: WorldSpec,
	pub nthreads: u8,
	pub steps: Vec<(Tid, Step)>,
	pub fault: Option<FaultSpec>,
}

#[derive(Clone, Debug, PartialEq, Serialize, Deserialize, Default)]
pub struct ConcCase {
	pub world: WorldSpec,
	pub programs: Vec<Vec<Step>>,
	pub schedule: Vec<u8>,
	pub writer_pref: bool,
	/// when set, the schedule is this exact list of choices at branch points
	/// (used by the exhaustive enumeration); `schedule` is ignored
	pub forced: Option<Vec<u8>>,
}

#[derive(Clone, Debug, PartialEq, Serialize, Deserialize)]
pub enum AnyCase {
	Seq(SeqCase),
	Conc(ConcCase),
	/// program texts for the TYPES engine
	Types(crate::case::TypesCase),
}

#[derive(Clone, Debug, PartialEq, Serialize, Deserialize, Default)]
pub struct TypesCase {
	pub family: String,
	pub name: String,
	pub twin: String,
	pub offending: String,
	/// same program over std::sync (differential cells only)
	pub std_offending: Option<String>,
	pub expect_reject: bool,
}
