//! Visiting the protected values reachable through a guard or through the
//! data handed to a scoped closure, in the user's declared order, together
//! with the Ok/Err status of every enclosing `Poisonable`.

use crate::types::*;
use happylock::collection::LockGuard;
use happylock::mutex::{MutexGuard, MutexRef};
use happylock::poisonable::{PoisonError, PoisonGuard, PoisonRef};
use happylock::rwlock::{RwLockReadGuard, RwLockReadRef, RwLockWriteGuard, RwLockWriteRef};

use crate::vlock::{VMutex, VRw};

pub enum Access<'a> {
	Mut(&'a mut P),
	Ref(&'a P),
}

impl Access<'_> {
	pub fn get(&self) -> &P {
		match self {
			Access::Mut(p) => p,
			Access::Ref(p) => p,
		}
	}
}

/// `pois` = Ok(false)/Err(true) status of the enclosing Poisonable wrappers,
/// outermost first.
pub type Visitor<'v> = dyn FnMut(&[bool], Access<'_>) + 'v;

pub trait Leaves {
	fn visit(&mut self, pois: &mut Vec<bool>, f: &mut Visitor<'_>);
}

impl Leaves for &mut P {
	fn visit(&mut self, pois: &mut Vec<bool>, f: &mut Visitor<'_>) {
		f(pois, Access::Mut(self))
	}
}

impl Leaves for &P {
	fn visit(&mut self, pois: &mut Vec<bool>, f: &mut Visitor<'_>) {
		f(pois, Access::Ref(self))
	}
}

impl Leaves for MutexRef<'_, P, VMutex> {
	fn visit(&mut self, pois: &mut Vec<bool>, f: &mut Visitor<'_>) {
		f(pois, Access::Mut(&mut *self))
	}
}

impl Leaves for RwLockWriteRef<'_, P, VRw> {
	fn visit(&mut self, pois: &mut Vec<bool>, f: &mut Visitor<'_>) {
		f(pois, Access::Mut(&mut *self))
	}
}

impl Leaves for RwLockReadRef<'_, P, VRw> {
	fn visit(&mut self, pois: &mut Vec<bool>, f: &mut Visitor<'_>) {
		f(pois, Access::Ref(&*self))
	}
}

impl Leaves for MutexGuard<'_, P, VMutex> {
	fn visit(&mut self, pois: &mut Vec<bool>, f: &mut Visitor<'_>) {
		f(pois, Access::Mut(&mut *self))
	}
}

impl Leaves for RwLockWriteGuard<'_, P, VRw> {
	fn visit(&mut self, pois: &mut Vec<bool>, f: &mut Visitor<'_>) {
		f(pois, Access::Mut(&mut *self))
	}
}

impl Leaves for RwLockReadGuard<'_, P, VRw> {
	fn visit(&mut self, pois: &mut Vec<bool>, f: &mut Visitor<'_>) {
		f(pois, Access::Ref(&*self))
	}
}

impl<G: Leaves> Leaves for PoisonRef<'_, G> {
	fn visit(&mut self, pois: &mut Vec<bool>, f: &mut Visitor<'_>) {
		let g: &mut G = self.as_mut();
		g.visit(pois, f)
	}
}

impl<G: Leaves> Leaves for PoisonGuard<'_, G> {
	fn visit(&mut self, pois: &mut Vec<bool>, f: &mut Visitor<'_>) {
		let g: &mut G = self.as_mut();
		g.visit(pois, f)
	}
}

impl<G: Leaves> Leaves for LockGuard<G> {
	fn visit(&mut self, pois: &mut Vec<bool>, f: &mut Visitor<'_>) {
		let g: &mut G = self.as_mut();
		g.visit(pois, f)
	}
}

impl<G: Leaves> Leaves for Result<G, PoisonError<G>> {
	fn visit(&mut self, pois: &mut Vec<bool>, f: &mut Visitor<'_>) {
		match self {
			Ok(g) => {
				pois.push(false);
				g.visit(pois, f);
				pois.pop();
			}
			Err(e) => {
				pois.push(true);
				e.get_mut().visit(pois, f);
				pois.pop();
			}
		}
	}
}

impl<G: Leaves> Leaves for Box<[G]> {
	fn visit(&mut self, pois: &mut Vec<bool>, f: &mut Visitor<'_>) {
		for g in self.iter_mut() {
			g.visit(pois, f);
		}
	}
}

impl<G: Leaves, const N: usize> Leaves for [G; N] {
	fn visit(&mut self, pois: &mut Vec<bool>, f: &mut Visitor<'_>) {
		for g in self.iter_mut() {
			g.visit(pois, f);
		}
	}
}

macro_rules! tuple_leaves {
	($($g:ident $i:tt),*) => {
		impl<$($g: Leaves),*> Leaves for ($($g,)*) {
			fn visit(&mut self, pois: &mut Vec<bool>, f: &mut Visitor<'_>) {
				$(self.$i.visit(pois, f);)*
			}
		}
	};
}
tuple_leaves!(A 0);
tuple_leaves!(A 0, B 1);
tuple_leaves!(A 0, B 1, C 2);
tuple_leaves!(A 0, B 1, C 2, D 3);
tuple_leaves!(A 0, B 1, C 2, D 3, E 4);
tuple_leaves!(A 0, B 1, C 2, D 3, E 4, F 5);
tuple_leaves!(A 0, B 1, C 2, D 3, E 4, F 5, G 6);

macro_rules! enum_leaves {
	($t:ident : $($v:ident),*) => {
		impl Leaves for $t {
			fn visit(&mut self, pois: &mut Vec<bool>, f: &mut Visitor<'_>) {
				match self {
					$($t::$v(x) => x.visit(pois, f),)*
				}
			}
		}
	};
}
enum_leaves!(MemG: M, R, PM, PR, PPM, PPR, O, V, VO, PV, PVO);
enum_leaves!(OMemG: M, R, PM, PR, PPM, PPR, VO, PVO);
enum_leaves!(MemRG: R, PR, PPR, O, V, VO, PV, PVO);
enum_leaves!(OMemRG: R, PR, PPR, VO, PVO);
enum_leaves!(MemD: L, PL, PPL, O, V, VO, PV, PVO);
enum_leaves!(OMemD: L, PL, PPL, VO, PVO);
enum_leaves!(MemDR: L, PL, PPL, O, V, VO, PV, PVO);
enum_leaves!(OMemDR: L, PL, PPL, VO, PVO);
