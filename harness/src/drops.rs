//! C16: every value placed in a lock or collection is dropped exactly once on
//! every construction / destruction path, and get_mut / into_inner /
//! into_child return the stored values at the declared positions.
//!
//! Scenarios are generic over the leaf type (Mutex, RwLock, Poisonable<Mutex>)
//! and the container (Vec, Box<[_]>, arrays, tuples); a plan decoded from the
//! byte stream picks kind, constructor, writes under locks, observers and the
//! destructor path.

use std::collections::HashMap;
use std::sync::{Arc, Mutex as StdMutex};

use happylock::collection::{
	BoxedLockCollection as Boxed, OwnedLockCollection as Owned, RefLockCollection as RefC,
	RetryingLockCollection as Retry,
};
use happylock::lockable::{Lockable, LockableGetMut, LockableIntoInner, OwnedLockable};
use happylock::poisonable::Poisonable;
use happylock::{Mutex, RwLock, ThreadKey};

use crate::gen::Src;
use crate::interp::Finding;
use crate::world::FromVec;

#[derive(Default)]
pub struct DropTable {
	counts: StdMutex<HashMap<u32, u32>>,
}

pub struct Tracked {
	pub id: u32,
	pub ver: u32,
	table: Arc<DropTable>,
}

impl Drop for Tracked {
	fn drop(&mut self) {
		*self.table.counts.lock().unwrap().entry(self.id).or_insert(0) += 1;
	}
}

impl std::fmt::Debug for Tracked {
	fn fmt(&self, f: &mut std::fmt::Formatter<'_>) -> std::fmt::Result {
		write!(f, "T{}v{}", self.id, self.ver)
	}
}

pub trait DLeaf: Sized + OwnedLockable + LockableIntoInner + LockableGetMut + Send + Sync + 'static {
	const NAME: &'static str;
	fn mk(t: Tracked) -> Self;
	fn from_inner(x: <Self as LockableIntoInner>::Inner) -> Tracked;
	fn from_mut<'a>(x: <Self as LockableGetMut>::Inner<'a>) -> &'a mut Tracked;
	fn from_data<'a>(x: <Self as Lockable>::DataMut<'a>) -> &'a mut Tracked;
	fn from_guard<'a, 'g>(x: &'a mut <Self as Lockable>::Guard<'g>) -> &'a mut Tracked;
}

impl DLeaf for Mutex<Tracked> {
	const NAME: &'static str = "Mutex";
	fn mk(t: Tracked) -> Self {
		Mutex::new(t)
	}
	fn from_inner(x: Tracked) -> Tracked {
		x
	}
	fn from_mut<'a>(x: <Self as LockableGetMut>::Inner<'a>) -> &'a mut Tracked {
		x
	}
	fn from_data<'a>(x: <Self as Lockable>::DataMut<'a>) -> &'a mut Tracked {
		x
	}
	fn from_guard<'a, 'g>(x: &'a mut <Self as Lockable>::Guard<'g>) -> &'a mut Tracked {
		&mut **x
	}
}

impl DLeaf for RwLock<Tracked> {
	const NAME: &'static str = "RwLock";
	fn mk(t: Tracked) -> Self {
		RwLock::new(t)
	}
	fn from_inner(x: Tracked) -> Tracked {
		x
	}
	fn from_mut<'a>(x: <Self as LockableGetMut>::Inner<'a>) -> &'a mut Tracked {
		x
	}
	fn from_data<'a>(x: <Self as Lockable>::DataMut<'a>) -> &'a mut Tracked {
		x
	}
	fn from_guard<'a, 'g>(x: &'a mut <Self as Lockable>::Guard<'g>) -> &'a mut Tracked {
		&mut **x
	}
}

impl DLeaf for Poisonable<Mutex<Tracked>> {
	const NAME: &'static str = "Poisonable<Mutex>";
	fn mk(t: Tracked) -> Self {
		Poisonable::new(Mutex::new(t))
	}
	fn from_inner(x: <Self as LockableIntoInner>::Inner) -> Tracked {
		match x {
			Ok(t) => t,
			Err(e) => e.into_inner(),
		}
	}
	fn from_mut<'a>(x: <Self as LockableGetMut>::Inner<'a>) -> &'a mut Tracked {
		match x {
			Ok(t) => t,
			Err(e) => e.into_inner(),
		}
	}
	fn from_data<'a>(x: <Self as Lockable>::DataMut<'a>) -> &'a mut Tracked {
		match x {
			Ok(t) => t,
			Err(e) => e.into_inner(),
		}
	}
	fn from_guard<'a, 'g>(x: &'a mut <Self as Lockable>::Guard<'g>) -> &'a mut Tracked {
		match x {
			Ok(g) => &mut ***g,
			Err(e) => &mut ***e.get_mut(),
		}
	}
}

/// container-level values flattened to a Vec in declared order
pub trait FlatV<T> {
	fn flat(self) -> Vec<T>;
}
impl<T> FlatV<T> for Box<[T]> {
	fn flat(self) -> Vec<T> {
		self.into_vec()
	}
}
impl<T> FlatV<T> for Vec<T> {
	fn flat(self) -> Vec<T> {
		self
	}
}
impl<T, const N: usize> FlatV<T> for [T; N] {
	fn flat(self) -> Vec<T> {
		self.into_iter().collect()
	}
}
macro_rules! tuple_flat {
	($($i:tt),*) => {
		impl<T> FlatV<T> for ($(tuple_flat!(@t $i T),)*) {
			fn flat(self) -> Vec<T> {
				vec![$(self.$i),*]
			}
		}
	};
	(@t $i:tt $t:ident) => { $t };
}
tuple_flat!(0);
tuple_flat!(0, 1);
tuple_flat!(0, 1, 2);
tuple_flat!(0, 1, 2, 3);
tuple_flat!(0, 1, 2, 3, 4);
tuple_flat!(0, 1, 2, 3, 4, 5);
tuple_flat!(0, 1, 2, 3, 4, 5, 6);

/// mutable access to the guards inside a container-level guard, in declared order
pub trait FlatMut<T> {
	fn flat_mut(&mut self) -> Vec<&mut T>;
}
impl<T> FlatMut<T> for Box<[T]> {
	fn flat_mut(&mut self) -> Vec<&mut T> {
		self.iter_mut().collect()
	}
}
impl<T, const N: usize> FlatMut<T> for [T; N] {
	fn flat_mut(&mut self) -> Vec<&mut T> {
		self.iter_mut().collect()
	}
}
macro_rules! tuple_flat_mut {
	($($i:tt),*) => {
		impl<T> FlatMut<T> for ($(tuple_flat!(@t $i T),)*) {
			fn flat_mut(&mut self) -> Vec<&mut T> {
				vec![$(&mut self.$i),*]
			}
		}
	};
}
tuple_flat_mut!(0);
tuple_flat_mut!(0, 1);
tuple_flat_mut!(0, 1, 2);
tuple_flat_mut!(0, 1, 2, 3);
tuple_flat_mut!(0, 1, 2, 3, 4);
tuple_flat_mut!(0, 1, 2, 3, 4, 5);
tuple_flat_mut!(0, 1, 2, 3, 4, 5, 6);

#[derive(Clone, Copy, Debug, PartialEq, Eq, serde::Serialize, serde::Deserialize)]
pub enum DKind {
	BoxedNew,
	BoxedFrom,
	BoxedTryNew,
	BoxedNewRef,
	OwnedNew,
	OwnedFrom,
	RetryNew,
	RetryFrom,
	RetryTryNew,
	RetryNewRef,
	RefNew,
	RefTryNew,
	/// `.into_iter().collect()` into a collection over Vec (FromIterator)
	BoxedFromIter,
	OwnedFromIter,
	RetryFromIter,
	/// try_new on (owned lock, &m, &m): rejected, the owned lock must still be dropped once
	BoxedRejected,
	RetryRejected,
}

#[derive(Clone, Copy, Debug, PartialEq, Eq, serde::Serialize, serde::Deserialize)]
pub enum DEnd {
	Drop,
	IntoChild,
	IntoInner,
	/// get_mut / child_mut, then drop
	GetMutThenDrop,
	/// `into_iter()` over the collection, every lock taken apart with into_inner
	/// (Vec collections only; otherwise like IntoInner)
	IntoIter,
	/// `extend` with two more locks first (Owned / Retrying over Vec only), then into_inner
	ExtendThenIntoInner,
}

#[derive(Clone, Debug, serde::Serialize, serde::Deserialize)]
pub struct DPlan {
	pub leaf: u8,
	pub cont: u8,
	pub n: usize,
	pub kind: DKind,
	/// (position, new version, through guard instead of scoped closure)
	pub writes: Vec<(usize, u32, bool)>,
	pub end: DEnd,
	/// poison the Poisonable leaves first (panic under the guard)
	pub poison: bool,
	/// Vec-only paths: the iterator handed to `extend` / `collect` panics after
	/// yielding this many items (the panic is caught by the scenario)
	#[serde(default)]
	pub iter_panics_after: Option<u8>,
	/// kill every member lock (`lockable::RawLock::poison`, a safe call; what a
	/// panicking raw lock operation does to a lock) after the writes: the
	/// values must still come back, or be dropped, exactly once
	#[serde(default)]
	pub kill: bool,
}

pub const CONT_NAMES: [&str; 14] = ["Vec", "Box<[_]>", "[_;0]", "[_;1]", "[_;2]", "[_;3]", "[_;4]", "(_,)", "(_,_)", "(_,_,_)", "(_;4)", "(_;5)", "(_;6)", "(_;7)"];

pub fn gen_plan(src: &mut Src<'_>) -> DPlan {
	// 3 = locks over a zero-sized payload with a destructor
	let leaf = if src.chance(24) { 3 } else { src.pick(3) as u8 };
	let cont = src.pick(14) as u8;
	let n = match cont {
		0 | 1 => src.pick(5),
		2 => 0,
		3 => 1,
		4 => 2,
		5 => 3,
		6 => 4,
		7 => 1,
		8 => 2,
		9 => 3,
		10 => 4,
		11 => 5,
		12 => 6,
		_ => 7,
	};
	let kinds = [
		DKind::BoxedNew,
		DKind::BoxedFrom,
		DKind::BoxedTryNew,
		DKind::BoxedNewRef,
		DKind::OwnedNew,
		DKind::OwnedFrom,
		DKind::RetryNew,
		DKind::RetryFrom,
		DKind::RetryTryNew,
		DKind::RetryNewRef,
		DKind::RefNew,
		DKind::RefTryNew,
		DKind::BoxedRejected,
		DKind::RetryRejected,
		DKind::BoxedFromIter,
		DKind::OwnedFromIter,
		DKind::RetryFromIter,
	];
	let kind = kinds[src.pick(kinds.len())];
	let nw = src.pick(4);
	let writes = (0..nw).map(|_| (src.pick(n.max(1)), 1 + src.pick(200) as u32, src.chance(128))).collect();
	let end = match src.pick(6) {
		0 => DEnd::Drop,
		1 => DEnd::IntoChild,
		2 => DEnd::IntoInner,
		3 => DEnd::GetMutThenDrop,
		4 => DEnd::IntoIter,
		_ => DEnd::ExtendThenIntoInner,
	};
	let poison = src.chance(60);
	let iter_panics_after = if src.chance(90) { Some(src.pick(3) as u8) } else { None };
	let kill = src.chance(50);
	DPlan { leaf, cont, n, kind, writes, end, poison, iter_panics_after, kill }
}

pub struct DOutcome {
	pub findings: Vec<Finding>,
	pub labels: Vec<String>,
}

fn finding(sig: String, detail: String) -> Finding {
	Finding { prop: "C16", sig, detail, step: None, tid: 0 }
}

/// apply the writes to a collection through its own locking API
macro_rules! apply_writes {
	($coll:expr, $plan:expr, $key:expr, $L:ty, $expect:expr) => {{
		for (pos, ver, via_guard) in &$plan.writes {
			if *pos >= $plan.n {
				continue;
			}
			if *via_guard {
				let k = $key.take().unwrap();
				let mut g = $coll.lock(k);
				{
					let mut parts = FlatMut::flat_mut(&mut *g);
					let t = <$L as DLeaf>::from_guard(&mut *parts[*pos]);
					t.ver = *ver;
				}
				drop(g);
				$key = ThreadKey::get();
			} else {
				let k = $key.as_mut().unwrap();
				$coll.scoped_lock(k, |data| {
					let mut parts = FlatV::flat(data);
					let t = <$L as DLeaf>::from_data(parts.remove(*pos));
					t.ver = *ver;
				});
			}
			$expect[*pos].1 = *ver;
		}
		if $plan.poison && $plan.n > 0 {
			// a panic while the guard is alive (poisons Poisonable leaves); the
			// values must still come back / be dropped exactly once
			crate::exec::silence_panics();
			let k = $key.take().unwrap();
			let r = std::panic::catch_unwind(std::panic::AssertUnwindSafe(|| {
				let _g = $coll.lock(k);
				std::panic::panic_any(crate::exec::UserPanic);
			}));
			let _ = r;
			$key = ThreadKey::get();
		}
		if $plan.kill {
			happylock::lockable::RawLock::poison(&$coll);
		}
	}};
}

fn check_values(what: &str, plan: &DPlan, got: &[(u32, u32)], expect: &[(u32, u32)], out: &mut Vec<Finding>) {
	if got != expect {
		out.push(finding(
			format!("wrong-values|{what}|{:?}", plan.kind),
			format!("{what} returned (id, version) {got:?} at the declared positions, expected {expect:?} (plan {plan:?})"),
		));
	}
}

pub fn run_scenario<L, C>(plan: &DPlan) -> DOutcome
where
	L: DLeaf,
	C: FromVec<L> + OwnedLockable + LockableIntoInner + LockableGetMut + Send + Sync + 'static,
	<C as LockableIntoInner>::Inner: FlatV<<L as LockableIntoInner>::Inner>,
	for<'a> <C as LockableGetMut>::Inner<'a>: FlatV<<L as LockableGetMut>::Inner<'a>>,
	for<'a> <C as Lockable>::DataMut<'a>: FlatV<<L as Lockable>::DataMut<'a>>,
	for<'a> <C as Lockable>::Guard<'a>: FlatMut<<L as Lockable>::Guard<'a>>,
{
	let table = Arc::new(DropTable::default());
	let mut findings = Vec::new();
	let mut labels = vec![format!("c16.leaf.{}", L::NAME), format!("c16.cont.{}", CONT_NAMES[plan.cont as usize]), format!("c16.kind.{:?}", plan.kind), format!("c16.end.{:?}", plan.end)];
	let n = plan.n;
	let mut expect: Vec<(u32, u32)> = (0..n as u32).map(|i| (i, 0)).collect();
	let mk = |i: u32| L::mk(Tracked { id: i, ver: 0, table: table.clone() });
	let leaves: Vec<L> = (0..n as u32).map(mk).collect();
	let mut key = ThreadKey::get();
	if key.is_none() {
		return DOutcome { findings: vec![finding("harness|no-key".into(), "no key".into())], labels };
	}
	let mut extra_ids: Vec<u32> = Vec::new();
	{
		let c: C = C::from_vec(leaves);
		macro_rules! finish_owned {
			($coll:expr, $into_child:expr) => {{
				let coll = $coll;
				apply_writes!(coll, plan, key, L, expect);
				match plan.end {
					DEnd::Drop => drop(coll),
					DEnd::IntoChild => {
						#[allow(clippy::redundant_closure_call)]
						let child: C = ($into_child)(coll);
						let got: Vec<(u32, u32)> = FlatV::flat(LockableIntoInner::into_inner(child)).into_iter().map(|x| { let t = L::from_inner(x); (t.id, t.ver) }).collect();
						check_values("into_child().into_inner()", plan, &got, &expect, &mut findings);
					}
					DEnd::IntoInner => {
						let got: Vec<(u32, u32)> = FlatV::flat(LockableIntoInner::into_inner(coll)).into_iter().map(|x| { let t = L::from_inner(x); (t.id, t.ver) }).collect();
						check_values("into_inner()", plan, &got, &expect, &mut findings);
					}
					DEnd::GetMutThenDrop | DEnd::IntoIter | DEnd::ExtendThenIntoInner => drop(coll),
				}
			}};
		}
		match plan.kind {
			DKind::BoxedNew | DKind::BoxedFrom | DKind::BoxedTryNew => {
				let coll = match plan.kind {
					DKind::BoxedNew => Boxed::new(c),
					DKind::BoxedFrom => Boxed::from(c),
					_ => match Boxed::try_new(c) {
						Some(b) => b,
						None => {
							findings.push(finding("try_new-rejected-owned-input".into(), format!("Boxed::try_new rejected a duplicate-free owned input (plan {plan:?})")));
							return DOutcome { findings, labels };
						}
					},
				};
				finish_owned!(coll, |x: Boxed<C>| x.into_child());
			}
			DKind::OwnedNew | DKind::OwnedFrom => {
				let mut coll = if plan.kind == DKind::OwnedNew { Owned::new(c) } else { Owned::from(c) };
				if plan.end == DEnd::GetMutThenDrop {
					apply_writes!(coll, plan, key, L, expect);
					let got: Vec<(u32, u32)> = FlatV::flat(coll.get_mut()).into_iter().map(|x| { let t = L::from_mut(x); (t.id, t.ver) }).collect();
					check_values("get_mut()", plan, &got, &expect, &mut findings);
					let _c: &mut C = coll.child_mut();
					drop(coll);
				} else {
					finish_owned!(coll, |x: Owned<C>| x.into_child());
				}
			}
			DKind::RetryNew | DKind::RetryFrom | DKind::RetryTryNew => {
				let mut coll = match plan.kind {
					DKind::RetryNew => Retry::new(c),
					DKind::RetryFrom => Retry::from(c),
					_ => match Retry::try_new(c) {
						Some(b) => b,
						None => {
							findings.push(finding("try_new-rejected-owned-input".into(), format!("Retry::try_new rejected a duplicate-free owned input (plan {plan:?})")));
							return DOutcome { findings, labels };
						}
					},
				};
				if plan.end == DEnd::GetMutThenDrop {
					apply_writes!(coll, plan, key, L, expect);
					let got: Vec<(u32, u32)> = FlatV::flat(coll.get_mut()).into_iter().map(|x| { let t = L::from_mut(x); (t.id, t.ver) }).collect();
					check_values("get_mut()", plan, &got, &expect, &mut findings);
					let _c: &mut C = coll.child_mut();
					drop(coll);
				} else {
					finish_owned!(coll, |x: Retry<C>| x.into_child());
				}
			}
			DKind::BoxedNewRef | DKind::RetryNewRef | DKind::RefNew | DKind::RefTryNew => {
				let mut c = c;
				{
					match plan.kind {
						DKind::BoxedNewRef => {
							let coll = Boxed::new_ref(&c);
							apply_writes!(coll, plan, key, L, expect);
							if plan.end == DEnd::IntoChild {
								let _r: &C = coll.into_child();
							}
						}
						DKind::RetryNewRef => {
							let coll = Retry::new_ref(&c);
							apply_writes!(coll, plan, key, L, expect);
							if plan.end == DEnd::IntoChild {
								let _r: &C = coll.into_child();
							}
						}
						DKind::RefNew => {
							let coll = RefC::new(&c);
							apply_writes!(coll, plan, key, L, expect);
						}
						_ => {
							let coll = RefC::try_new(&c).expect("owned input has no duplicates");
							apply_writes!(coll, plan, key, L, expect);
						}
					}
				}
				// the container is still ours
				let got: Vec<(u32, u32)> = FlatV::flat(LockableGetMut::get_mut(&mut c)).into_iter().map(|x| { let t = L::from_mut(x); (t.id, t.ver) }).collect();
				check_values("container.get_mut() after a by-reference collection", plan, &got, &expect, &mut findings);
				if plan.end == DEnd::IntoInner {
					let got: Vec<(u32, u32)> = FlatV::flat(LockableIntoInner::into_inner(c)).into_iter().map(|x| { let t = L::from_inner(x); (t.id, t.ver) }).collect();
					check_values("container.into_inner()", plan, &got, &expect, &mut findings);
				}
			}
			DKind::BoxedFromIter | DKind::OwnedFromIter | DKind::RetryFromIter => unreachable!("handled by run_vec_scenario"),
			DKind::BoxedRejected | DKind::RetryRejected => {
				// the input owns `c` and one more tracked lock, next to a duplicated reference
				let dup = mk(1000);
				extra_ids.push(1000);
				let owned_extra = mk(1001);
				extra_ids.push(1001);
				let input = (c, owned_extra, &dup, &dup);
				let rejected = if plan.kind == DKind::BoxedRejected { Boxed::try_new(input).is_none() } else { Retry::try_new(input).is_none() };
				if !rejected {
					findings.push(finding("duplicate-accepted".into(), format!("try_new accepted an input with a duplicated reference (plan {plan:?})")));
				}
				// everything the rejected input owned must be gone exactly once by now
				let counts = table.counts.lock().unwrap().clone();
				for id in (0..n as u32).chain([1001]) {
					let cnt = counts.get(&id).copied().unwrap_or(0);
					if cnt != 1 {
						findings.push(finding(
							format!("rejected-input-drop-count|{:?}", plan.kind),
							format!("after try_new rejected its input, value {id} owned by the input was dropped {cnt} times (plan {plan:?})"),
						));
						break;
					}
				}
				drop(dup);
				labels.push("c16.rejected_try_new_with_owned_content".into());
			}
		}
	}
	drop(key);
	// everything is gone: every id exactly once
	let counts = table.counts.lock().unwrap().clone();
	for id in (0..n as u32).chain(extra_ids.iter().copied()) {
		let cnt = counts.get(&id).copied().unwrap_or(0);
		if cnt != 1 {
			findings.push(finding(
				format!("drop-count|{:?}|{:?}", plan.kind, plan.end),
				format!("value {id} was dropped {cnt} times (leaf {}, container {}, plan {plan:?})", L::NAME, CONT_NAMES[plan.cont as usize]),
			));
			break;
		}
	}
	if !plan.writes.is_empty() {
		labels.push("c16.write_under_lock".into());
	}
	if plan.poison && plan.n > 0 && plan.leaf == 2 {
		labels.push("c16.poisoned".into());
	}
	if plan.kill && plan.n > 0 {
		labels.push("c16.killed".into());
	}
	DOutcome { findings, labels }
}

macro_rules! dispatch_leaf_cont {
	($plan:expr, $L:ty) => {
		match $plan.cont {
			0 => run_scenario::<$L, Vec<$L>>($plan),
			1 => run_scenario::<$L, Box<[$L]>>($plan),
			2 => run_scenario::<$L, [$L; 0]>($plan),
			3 => run_scenario::<$L, [$L; 1]>($plan),
			4 => run_scenario::<$L, [$L; 2]>($plan),
			5 => run_scenario::<$L, [$L; 3]>($plan),
			6 => run_scenario::<$L, [$L; 4]>($plan),
			7 => run_scenario::<$L, ($L,)>($plan),
			8 => run_scenario::<$L, ($L, $L)>($plan),
			9 => run_scenario::<$L, ($L, $L, $L)>($plan),
			10 => run_scenario::<$L, ($L, $L, $L, $L)>($plan),
			11 => run_scenario::<$L, ($L, $L, $L, $L, $L)>($plan),
			12 => run_scenario::<$L, ($L, $L, $L, $L, $L, $L)>($plan),
			_ => run_scenario::<$L, ($L, $L, $L, $L, $L, $L, $L)>($plan),
		}
	};
}

/// Yields `limit` fresh locks (ids 2000..), then panics if `panic_at_end`.
struct FeedIter<'a, L> {
	mk: &'a dyn Fn(u32) -> L,
	next: u32,
	limit: u32,
	panic_at_end: bool,
	made: &'a std::cell::RefCell<Vec<u32>>,
}

impl<L> Iterator for FeedIter<'_, L> {
	type Item = L;
	fn next(&mut self) -> Option<L> {
		if self.next >= self.limit {
			if self.panic_at_end {
				std::panic::panic_any(crate::exec::UserPanic);
			}
			return None;
		}
		let id = 2000 + self.next;
		self.next += 1;
		self.made.borrow_mut().push(id);
		Some((self.mk)(id))
	}
}

// `extend` on a collection type that may or may not implement `Extend` on the
// tree under test (autoref specialisation: the bounded impl on `ExtProbe` wins
// over the unbounded one on `&ExtProbe` whenever its bounds can be proved)
#[allow(dead_code)]
struct ExtProbe<'a, C>(std::cell::RefCell<&'a mut C>);
#[allow(dead_code)]
trait ExtendIfPossible<A> {
	fn extend_if_possible(&self, it: &mut dyn Iterator<Item = A>) -> bool;
}
impl<C: Extend<A>, A> ExtendIfPossible<A> for ExtProbe<'_, C> {
	fn extend_if_possible(&self, it: &mut dyn Iterator<Item = A>) -> bool {
		self.0.borrow_mut().extend(it);
		true
	}
}
trait ExtendNotPossible<A> {
	fn extend_if_possible(&self, it: &mut dyn Iterator<Item = A>) -> bool;
}
impl<C, A> ExtendNotPossible<A> for &ExtProbe<'_, C> {
	fn extend_if_possible(&self, _it: &mut dyn Iterator<Item = A>) -> bool {
		false
	}
}

/// after `extend` (possibly cut short by a panicking iterator): the values
/// that were stored before are still there, at their positions, followed by
/// (a prefix-closed selection of) the items the iterator handed over
fn check_values_after_extend(what: &str, plan: &DPlan, got: &[(u32, u32)], before: &[(u32, u32)], pulled: &[u32], complete: bool, out: &mut Vec<Finding>) {
	let ok = got.len() >= before.len()
		&& got[..before.len()] == *before
		&& {
			let tail: Vec<u32> = got[before.len()..].iter().map(|x| x.0).collect();
			let all: Vec<u32> = pulled.to_vec();
			if complete {
				tail == all
			} else {
				// which of the pulled items made it in is up to the implementation
				tail.iter().all(|x| all.contains(x)) && got[before.len()..].iter().all(|x| x.1 == 0)
			}
		};
	if !ok {
		out.push(finding(
			format!("wrong-values-after-extend|{what}|{:?}", plan.kind),
			format!("{what} returned (id, version) {got:?}; stored before extend: {before:?}, items pulled by extend: {pulled:?}, iterator {} (plan {plan:?})", if complete { "ran to its end" } else { "panicked" }),
		));
	}
}

/// The Vec-only construction / destruction paths: FromIterator, IntoIterator, Extend.
fn run_vec_scenario<L: DLeaf>(plan: &DPlan) -> DOutcome
where
	for<'a> <L as Lockable>::DataMut<'a>: Sized,
{
	use std::panic::{catch_unwind, AssertUnwindSafe};
	crate::exec::silence_panics();
	let table = Arc::new(DropTable::default());
	let mut findings = Vec::new();
	let mut labels = vec![format!("c16.leaf.{}", L::NAME), "c16.cont.Vec".to_string(), format!("c16.kind.{:?}", plan.kind), format!("c16.end.{:?}", plan.end), "c16.vec_only_path".to_string()];
	let n = plan.n;
	let mut expect: Vec<(u32, u32)> = (0..n as u32).map(|i| (i, 0)).collect();
	let mk = |i: u32| L::mk(Tracked { id: i, ver: 0, table: table.clone() });
	let made = std::cell::RefCell::new(Vec::<u32>::new());
	let mut key = ThreadKey::get();
	if key.is_none() {
		return DOutcome { findings: vec![finding("harness|no-key".into(), "no key".into())], labels };
	}
	let mut ids: Vec<u32> = (0..n as u32).collect();

	// `collect()` from an iterator that panics part-way: no collection comes
	// into being, everything the iterator handed over is dropped exactly once
	if let (Some(k), DEnd::Drop) = (plan.iter_panics_after, plan.end) {
		labels.push("c16.collect_from_panicking_iterator".into());
		let mut it = FeedIter { mk: &mk, next: 0, limit: k as u32, panic_at_end: true, made: &made };
		let r = match plan.kind {
			DKind::BoxedFromIter => catch_unwind(AssertUnwindSafe(|| drop((&mut it).collect::<Boxed<Vec<L>>>()))),
			DKind::OwnedFromIter => catch_unwind(AssertUnwindSafe(|| drop((&mut it).collect::<Owned<Vec<L>>>()))),
			_ => catch_unwind(AssertUnwindSafe(|| drop((&mut it).collect::<Retry<Vec<L>>>()))),
		};
		if r.is_ok() {
			findings.push(finding(format!("panic-swallowed|collect|{:?}", plan.kind), format!("collect() returned normally although the iterator panicked (plan {plan:?})")));
		}
		drop(key);
		let counts = table.counts.lock().unwrap().clone();
		for id in made.borrow().iter() {
			let cnt = counts.get(id).copied().unwrap_or(0);
			if cnt != 1 {
				findings.push(finding(
					format!("drop-count|{:?}|collect-from-panicking-iterator", plan.kind),
					format!("value {id}, handed over by an iterator that later panicked, was dropped {cnt} times (leaf {}, plan {plan:?})", L::NAME),
				));
				break;
			}
		}
		return DOutcome { findings, labels };
	}

	let leaves: Vec<L> = (0..n as u32).map(&mk).collect();
	let (limit, pan) = match plan.iter_panics_after {
		Some(k) => (k as u32, true),
		None => (2, false),
	};
	// shared tail of the three kinds: extend (where the type has it), then the destructor path
	macro_rules! tail {
		($coll:ident, $extend:expr) => {{
			apply_writes!($coll, plan, key, L, expect);
			let before = expect.clone();
			let mut extended = false;
			if plan.end == DEnd::ExtendThenIntoInner {
				let mut it = FeedIter { mk: &mk, next: 0, limit, panic_at_end: pan, made: &made };
				#[allow(clippy::redundant_closure_call)]
				let r = catch_unwind(AssertUnwindSafe(|| ($extend)(&mut $coll, &mut it)));
				match r {
					Ok(true) => {
						extended = true;
						labels.push("c16.extended".into());
						if pan {
							findings.push(finding(format!("panic-swallowed|extend|{:?}", plan.kind), format!("extend() returned normally although the iterator panicked (plan {plan:?})")));
						}
					}
					Ok(false) => labels.push("c16.extend_not_available_on_this_kind".into()),
					Err(_) => {
						extended = true;
						labels.push("c16.extend_cut_short_by_panicking_iterator".into());
					}
				}
				ids.extend(made.borrow().iter().copied());
			}
			let pulled: Vec<u32> = made.borrow().clone();
			if plan.end == DEnd::IntoIter {
				let got: Vec<(u32, u32)> = $coll.into_iter().map(|l| { let t = L::from_inner(LockableIntoInner::into_inner(l)); (t.id, t.ver) }).collect();
				check_values("into_iter()", plan, &got, &expect, &mut findings);
			} else {
				let got: Vec<(u32, u32)> = FlatV::flat(LockableIntoInner::into_inner($coll)).into_iter().map(|x| { let t = L::from_inner(x); (t.id, t.ver) }).collect();
				if extended {
					check_values_after_extend("into_inner()", plan, &got, &before, &pulled, !pan, &mut findings);
				} else {
					check_values("into_inner()", plan, &got, &expect, &mut findings);
				}
			}
		}};
	}
	match plan.kind {
		DKind::BoxedFromIter => {
			let mut coll: Boxed<Vec<L>> = leaves.into_iter().collect();
			tail!(coll, |c: &mut Boxed<Vec<L>>, it: &mut FeedIter<'_, L>| {
				let probe = ExtProbe(std::cell::RefCell::new(c));
				(&probe).extend_if_possible(it)
			});
		}
		DKind::OwnedFromIter => {
			let mut coll: Owned<Vec<L>> = leaves.into_iter().collect();
			tail!(coll, |c: &mut Owned<Vec<L>>, it: &mut FeedIter<'_, L>| {
				c.extend(it);
				true
			});
		}
		_ => {
			let mut coll: Retry<Vec<L>> = leaves.into_iter().collect();
			tail!(coll, |c: &mut Retry<Vec<L>>, it: &mut FeedIter<'_, L>| {
				c.extend(it);
				true
			});
		}
	}
	drop(key);
	let counts = table.counts.lock().unwrap().clone();
	for id in ids {
		let cnt = counts.get(&id).copied().unwrap_or(0);
		if cnt != 1 {
			findings.push(finding(
				format!("drop-count|{:?}|{:?}", plan.kind, plan.end),
				format!("value {id} was dropped {cnt} times (leaf {}, container Vec, plan {plan:?})", L::NAME),
			));
			break;
		}
	}
	if !plan.writes.is_empty() {
		labels.push("c16.write_under_lock".into());
	}
	DOutcome { findings, labels }
}

// ---------------------------------------------------------------------------
// zero-sized payloads: nothing to move, but still exactly one drop each

thread_local! {
	static ZDROPS: std::cell::Cell<usize> = const { std::cell::Cell::new(0) };
}

/// a value of size 0 with a destructor
pub struct ZTok;

impl Drop for ZTok {
	fn drop(&mut self) {
		ZDROPS.with(|c| c.set(c.get() + 1));
	}
}

impl std::fmt::Debug for ZTok {
	fn fmt(&self, f: &mut std::fmt::Formatter<'_>) -> std::fmt::Result {
		f.write_str("ZTok")
	}
}

fn zdrops() -> usize {
	ZDROPS.with(|c| c.get())
}

/// One collection over `n` locks with zero-sized payloads, through one end of
/// life.  `taken_apart` must return the payloads (as anything that owns them).
fn zst_round<K, I>(what: &str, plan: &DPlan, n: usize, coll: K, findings: &mut Vec<Finding>, into_inner: impl FnOnce(K) -> I, via_child: impl FnOnce(K) -> I) {
	ZDROPS.with(|c| c.set(0));
	let early = |stage: &str, findings: &mut Vec<Finding>| {
		let d = zdrops();
		if d != 0 {
			findings.push(finding(
				format!("zst-dropped-early|{what}|{stage}"),
				format!("{d} zero-sized payloads were dropped by {stage} of {what} although all {n} of them were handed to the caller (plan {plan:?})"),
			));
		}
	};
	match plan.end {
		DEnd::IntoInner | DEnd::ExtendThenIntoInner => {
			let inner = into_inner(coll);
			early("into_inner", findings);
			drop(inner);
		}
		DEnd::IntoChild | DEnd::IntoIter => {
			let inner = via_child(coll);
			early("into_child().into_inner()", findings);
			drop(inner);
		}
		_ => drop(coll),
	}
	let d = zdrops();
	if d != n {
		findings.push(finding(
			format!("zst-drop-count|{what}|{:?}", plan.end),
			format!("{n} zero-sized payloads went into {what}, {d} destructors ran when everything was gone (plan {plan:?})"),
		));
	}
}

fn run_zst_plan(plan: &DPlan) -> DOutcome {
	type ZM = Mutex<ZTok>;
	type ZR = RwLock<ZTok>;
	let mut findings = Vec::new();
	let n = plan.n.min(4);
	let zm = |k: usize| -> Vec<ZM> { (0..k).map(|_| Mutex::new(ZTok)).collect() };
	let zr = |k: usize| -> Vec<ZR> { (0..k).map(|_| RwLock::new(ZTok)).collect() };
	let kind = match plan.kind {
		DKind::OwnedNew | DKind::OwnedFrom | DKind::OwnedFromIter => 1,
		DKind::RetryNew | DKind::RetryFrom | DKind::RetryTryNew | DKind::RetryNewRef | DKind::RetryFromIter | DKind::RetryRejected => 2,
		_ => 0,
	};
	let shape = plan.cont % 5;
	let what = format!("{}<{}>", ["Boxed", "Owned", "Retry"][kind], ["Vec<Mutex<Z>>", "Box<[RwLock<Z>]>", "[Mutex<Z>;2]", "(Mutex<Z>,RwLock<Z>)", "Vec<[Mutex<Z>;2]>"][shape as usize]);
	macro_rules! kinds {
		($child:expr, $n:expr) => {{
			let child = $child;
			match kind {
				0 => zst_round(&what, plan, $n, Boxed::new(child), &mut findings, |c| c.into_inner(), |c| LockableIntoInner::into_inner(c.into_child())),
				1 => zst_round(&what, plan, $n, Owned::new(child), &mut findings, |c| c.into_inner(), |c| LockableIntoInner::into_inner(c.into_child())),
				_ => zst_round(&what, plan, $n, Retry::new(child), &mut findings, |c| c.into_inner(), |c| LockableIntoInner::into_inner(c.into_child())),
			}
		}};
	}
	match shape {
		0 => kinds!(zm(n), n),
		1 => kinds!(zr(n).into_boxed_slice(), n),
		2 => kinds!([Mutex::new(ZTok), Mutex::new(ZTok)], 2),
		3 => kinds!((Mutex::new(ZTok), RwLock::new(ZTok)), 2),
		_ => kinds!((0..n).map(|_| [Mutex::new(ZTok), Mutex::new(ZTok)]).collect::<Vec<[ZM; 2]>>(), 2 * n),
	}
	DOutcome { findings, labels: vec!["c16.leaf.zero-sized".into(), format!("c16.end.{:?}", plan.end)] }
}

pub fn run_plan(plan: &DPlan) -> DOutcome {
	if plan.leaf == 3 {
		let (out, double_free) = crate::quarantine::with_quarantine(|| std::panic::catch_unwind(std::panic::AssertUnwindSafe(|| run_zst_plan(plan))));
		let mut out = out.unwrap_or_else(|_| DOutcome { findings: vec![finding(format!("panicked|zero-sized|{:?}", plan.end), format!("a path over zero-sized payloads panicked (plan {plan:?})"))], labels: vec![] });
		if double_free {
			out.findings.push(finding(format!("double-free|zero-sized|{:?}", plan.end), format!("a heap block was freed twice (plan {plan:?})")));
		}
		return out;
	}
	let vec_path = matches!(plan.kind, DKind::BoxedFromIter | DKind::OwnedFromIter | DKind::RetryFromIter);
	let (out, double_free) = crate::quarantine::with_quarantine(|| {
		std::panic::catch_unwind(std::panic::AssertUnwindSafe(|| match (vec_path, plan.leaf) {
			(true, 0) => run_vec_scenario::<Mutex<Tracked>>(plan),
			(true, 1) => run_vec_scenario::<RwLock<Tracked>>(plan),
			(true, _) => run_vec_scenario::<Poisonable<Mutex<Tracked>>>(plan),
			(false, 0) => dispatch_leaf_cont!(plan, Mutex<Tracked>),
			(false, 1) => dispatch_leaf_cont!(plan, RwLock<Tracked>),
			(false, _) => dispatch_leaf_cont!(plan, Poisonable<Mutex<Tracked>>),
		}))
	});
	let mut out = match out {
		Ok(o) => o,
		Err(p) => {
			let msg = p.downcast_ref::<String>().cloned().or_else(|| p.downcast_ref::<&str>().map(|s| s.to_string())).unwrap_or_else(|| "?".into());
			DOutcome {
				findings: vec![finding(
					format!("panicked|{:?}|{:?}|{}", plan.kind, plan.end, crate::interp::first_words(&msg)),
					format!("a construction / destruction path that takes no lock panicked (\"{msg}\"): the values are not handed back (plan {plan:?})"),
				)],
				labels: vec![],
			}
		}
	};
	if double_free {
		out.findings.push(finding(
			format!("double-free|{:?}|{:?}", plan.kind, plan.end),
			format!("a heap block was freed twice during the scenario (plan {plan:?})"),
		));
	}
	out
}
