//! C12: fault enumeration.  A base case (world, pre-held pattern, one API
//! operation) is first run fault-free to count the raw operations of the
//! chosen step, then re-run with a one-shot panic at every index in turn, and
//! with persistent per-(lock, operation) panics like the repository's evil_*
//! tests.  The oracle works on the trace of the faulted step.

use crate::case::*;
use crate::engine::*;
use crate::exec::*;
use crate::gen::*;
use crate::interp::{Finding, Opts};
use crate::world::*;

pub struct C12Base {
	pub case: SeqCase,
	pub fault_step: usize,
	pub api: String,
	pub kind: String,
}

pub fn c12_world_cfg() -> WorldCfg {
	WorldCfg {
		min_leaves: 1,
		max_leaves: 4,
		p_mutex: 90,
		p_wrap: 40,
		min_colls: 1,
		max_colls: 3,
		p_byval: 60,
		p_nested: 60,
		p_inline_wrap: 20,
		p_pois_coll: 20,
		p_copy_permuted: 40,
		p_zst_member: 12,
		p_try_new_ref: 40,
		p_own_member: 10,
		max_members: 4,
		allow_dups: false,
		p_allow_dup: 0,
		kinds: vec![],
		vec_only: false,
	}
}

pub fn gen_c12_base(src: &mut Src<'_>) -> C12Base {
	let cfg = c12_world_cfg();
	let world = gen_world(src, &cfg);
	let sem = Sem::new(&world);
	let target = if !world.colls.is_empty() && src.chance(235) {
		TargetRef::Coll(src.pick(world.colls.len()))
	} else {
		TargetRef::Leaf(src.pick(world.leaves.len().max(1)))
	};
	let read = src.chance(90) && sem.sharable(target);
	let scoped = src.chance(120);
	let try_ = src.chance(110);
	let mut steps: Vec<(Tid, Step)> = vec![(0, Step::GetKey)];
	let flat = sem.target_flat(target);
	for p in &flat.pos {
		if src.chance(45) {
			steps.push((0, Step::PhantomHold { leaf: p.leaf, shared: src.chance(100), transient: src.chance(128) }));
		}
	}
	let fault_step;
	let api;
	// `{:?}` takes and releases locks too: the same clauses for a raw panic inside it
	if src.chance(35) {
		fault_step = steps.len();
		steps.push((0, Step::Debug { target, cap: None, payload: 0 }));
		api = "debug".to_string();
	} else if scoped {
		let owned_key = src.chance(100);
		fault_step = steps.len();
		// the closure itself may panic too: the releases that follow are then
		// issued by the unwind handler, and one of them may panic in turn
		let closure_panics = src.chance(70);
		let body = if closure_panics { vec![BodyOp::Touch, BodyOp::Panic] } else { vec![BodyOp::Touch] };
		let sc = Step::Scoped { target, read, try_, owned_key, body };
		// the same call issued from a destructor while an earlier panic of the
		// thread unwinds (the library then runs with std::thread::panicking())
		let in_dtor = src.chance(60);
		steps.push((0, if in_dtor { Step::UnwindingDrop { inner: Box::new(sc) } } else { sc }));
		api = format!(
			"scoped_{}{}{}{}",
			if try_ { "try_" } else { "" },
			if read { "read" } else { "lock" },
			if closure_panics { "+closure-panics" } else { "" },
			if in_dtor { "@destructor-during-unwind" } else { "" }
		);
	} else {
		let acq = steps.len();
		steps.push((0, Step::Acquire { target, read, try_ }));
		steps.push((0, Step::GuardOps { ops: vec![BodyOp::Touch] }));
		let how = if src.chance(110) { ReleaseHow::UnlockFn } else { ReleaseHow::Drop };
		let rel = steps.len();
		steps.push((0, Step::Release { how }));
		if src.chance(110) {
			fault_step = rel;
			api = format!("{}{}", if how == ReleaseHow::Drop { "drop_guard" } else { "unlock_fn" }, if read { "_read" } else { "" });
		} else {
			fault_step = acq;
			api = format!("{}{}", if try_ { "try_" } else { "" }, if read { "read" } else { "lock" });
		}
	}
	steps.push((0, Step::ProbeFaulted { fallback: target }));
	let kind = match target {
		TargetRef::Leaf(i) => format!("{}{:?}", "P".repeat(world.leaves.get(i).map(|l| l.wraps as usize).unwrap_or(0)), world.leaves.get(i).map(|l| l.ty).unwrap_or(LeafTy::R)),
		TargetRef::Coll(c) => format!("{}{:?}", if world.colls[c].pois { "P" } else { "" }, world.colls[c].kind),
	};
	C12Base { case: SeqCase { world, nthreads: 1, steps, fault: None }, fault_step, api, kind }
}

pub const FAULT_OPTS: Opts = Opts { quiescent: false, faults: true, conc: false };

/// number of raw operations of the faulted step in a fault-free run
pub fn count_ops(base: &C12Base) -> (u32, RunResult) {
	let mut c = base.case.clone();
	c.fault = Some(FaultSpec { at_step: base.fault_step, plan: FaultPlan::default() });
	let r = run_seq(&c, FAULT_OPTS);
	(r.fault_ops, r)
}

pub fn with_fault(base: &C12Base, plan: FaultPlan) -> SeqCase {
	let mut c = base.case.clone();
	c.fault = Some(FaultSpec { at_step: base.fault_step, plan });
	c
}

fn op_role(op: Op) -> &'static str {
	match op {
		Op::Lock | Op::LockSh => "blocking-acquire",
		Op::TryLock | Op::TryLockSh => "try-acquire",
		Op::Unlock | Op::UnlockSh => "release",
	}
}

/// The C12 clauses, evaluated on the trace of the faulted step.
pub fn c12_findings(case: &SeqCase, api: &str, kind: &str, r: &RunResult) -> Vec<Finding> {
	let mut out = Vec::new();
	let Some(f) = &case.fault else { return out };
	if r.fault_fired.is_empty() {
		return out;
	}
	let Some(sr) = r.step_ranges.iter().find(|s| s.step == f.at_step) else { return out };
	let faulted: Vec<(Lid, Op)> = r.fault_fired.iter().map(|(_, l, o, _)| (*l, *o)).collect();
	let (_, first_op) = faulted[0];
	let persistent = !f.plan.persistent.is_empty();
	let sigbase = format!("{kind}|{api}|fault:{}{}", op_role(first_op), if persistent { "(persistent)" } else { "" });
	let ev: Vec<&Event> = r.events.iter().filter(|e| (e.idx as usize) >= sr.start && (e.idx as usize) < sr.end && e.tid == sr.tid).collect();
	let show: Vec<String> = ev.iter().map(|e| e.show()).collect();
	let mk = |sig: String, detail: String| Finding { prop: "C12", sig, detail: format!("{detail}; operations of the call: {show:?}"), step: Some(f.at_step), tid: sr.tid };
	// (1) the panic reaches the caller
	if sr.outcome != "panicked" {
		out.push(mk(
			format!("swallowed|{sigbase}"),
			format!("a raw operation of L{} panicked during {api} on a {kind} but the call returned normally", faulted[0].0),
		));
	}
	// (3) no release of a lock the caller does not hold
	for e in &ev {
		if let Outcome::Illegal(k) = e.out {
			out.push(mk(
				format!("illegal-release:{k:?}|{sigbase}"),
				format!("after the raw-operation panic the call issued {} on L{}, which the caller does not hold that way ({k:?})", e.op.short(), e.lid),
			));
			break;
		}
	}
	// (2) nothing else stays held
	let faulted_release: Vec<Lid> = faulted.iter().filter(|(_, o)| o.is_release()).map(|(l, _)| *l).collect();
	let faulted_any: Vec<Lid> = faulted.iter().map(|(l, _)| *l).collect();
	for (y, sh) in &sr.held_after {
		if faulted_release.contains(y) {
			continue; // the caller held it and its own release panicked
		}
		if faulted_any.contains(y) {
			out.push(mk(
				format!("holds-faulted-lock|{sigbase}"),
				format!("L{y}'s acquisition panicked, yet the caller holds it after the call"),
			));
			continue;
		}
		out.push(mk(
			format!("leak|{sigbase}"),
			format!("L{y} ({}) is still held by the caller after the raw-operation panic on L{}", if *sh { "shared" } else { "exclusive" }, faulted[0].0),
		));
		break;
	}
	out
}

/// non-trivial: the fault is neither the first nor the last raw operation of
/// the call and at least one other lock was held at the fault
pub fn c12_nontrivial(case: &SeqCase, r: &RunResult, nops: u32) -> bool {
	let Some(f) = &case.fault else { return false };
	let Some((idx, lid, _, tid)) = r.fault_fired.first().cloned() else { return false };
	let Some(sr) = r.step_ranges.iter().find(|s| s.step == f.at_step) else { return false };
	if idx == 0 || idx + 1 >= nops {
		return false;
	}
	// held at the fault: replay the step's events up to the faulted one
	let mut held: Vec<Lid> = sr.held_before.iter().map(|(l, _)| *l).collect();
	for e in r.events.iter().filter(|e| (e.idx as usize) >= sr.start && (e.idx as usize) < sr.end && e.tid == tid) {
		if e.out == Outcome::Faulted {
			break;
		}
		if e.op.is_acquire() && matches!(e.out, Outcome::Ok | Outcome::OkWaited) {
			held.push(e.lid);
		}
		if e.op.is_release() && e.out == Outcome::Ok {
			if let Some(p) = held.iter().position(|l| *l == e.lid) {
				held.remove(p);
			}
		}
	}
	held.iter().any(|l| *l != lid)
}
