//! Step interpreter: executes one `Step` of a logical thread against the live
//! world through happylock's public API, updates the reference model and runs
//! the per-step oracles.  Used by both the SEQ and the CONC drivers.

use std::collections::{BTreeMap, HashMap};
use std::panic::{catch_unwind, AssertUnwindSafe};
use std::sync::{Arc, Mutex};

use happylock::ThreadKey;

use crate::case::*;
use crate::exec::*;
use crate::leaves::{Access, Leaves};
use crate::target::{DynGuard, DynTarget, KeyArg, ScopedRes};
use crate::world::*;

#[derive(Clone, Debug, serde::Serialize)]
pub struct Finding {
	pub prop: &'static str,
	/// stable signature (used for known-finding matching and de-duplication)
	pub sig: String,
	pub detail: String,
	pub step: Option<usize>,
	pub tid: Tid,
}

#[derive(Clone, Debug, PartialEq)]
pub enum PState {
	Clean,
	/// must report poisoned; the string says which kind of hold panicked
	Poisoned(String),
	/// a panic happened under a shared hold only: the property leaves it open
	Unspec,
}

#[derive(Default)]
pub struct Shared {
	pub findings: Vec<Finding>,
	pub shadow: Vec<u32>,
	pub poison: HashMap<WrapId, PState>,
	/// CONC: poison states that take effect when the unwinding of this thread's
	/// panic is complete (until then the wrappers are in transition: Unspec)
	pub pending_poison: HashMap<Tid, Vec<(WrapId, PState)>>,
	/// leaf locks killed with RawLock::poison
	pub killed: Vec<Lid>,
	/// holds leaked on purpose with mem::forget: (tid, lid, shared)
	pub leaked: Vec<(Tid, Lid, bool)>,
	pub phantoms: Vec<(Lid, bool, Tid)>,
	pub labels: BTreeMap<String, u64>,
	pub log: Vec<String>,
	pub next_phantom: Tid,
	pub cur_step: Option<usize>,
	/// acquisitions: per (frame) the blocking acquisition order, for C08
	pub acq_orders: Vec<(TargetRef, bool, Vec<Lid>)>,
	pub skipped_steps: u64,
	pub executed_steps: u64,
	/// per executed step: (step index, tid, trace start, trace end, held before, held after)
	pub step_ranges: Vec<StepRange>,
	/// how the last API call ended: "ok", "err", "panic:fault", "panic:killed", "panic:user", ...
	pub last_outcome: String,
	/// next lock id for locks made by OwnedTemp steps (0 = none made yet)
	pub temp_lid_next: Lid,
}

#[derive(Clone, Debug, Default, serde::Serialize)]
pub struct StepRange {
	pub step: usize,
	pub tid: Tid,
	pub start: usize,
	pub end: usize,
	pub held_before: Vec<(Lid, bool)>,
	pub held_after: Vec<(Lid, bool)>,
	pub outcome: String,
}

#[derive(Clone, Copy, Default)]
pub struct Opts {
	/// try_* results must be exact (only sound when nothing runs concurrently)
	pub quiescent: bool,
	/// an injected raw fault may be active: fault oracles instead of the normal ones
	pub faults: bool,
	/// other logical threads run between this thread's raw operations
	pub conc: bool,
}

pub struct Env {
	pub world: World,
	pub sem: Sem,
	pub exec: Arc<Exec>,
	pub shared: Mutex<Shared>,
	pub opts: Opts,
}

impl Env {
	pub fn sh(&self) -> std::sync::MutexGuard<'_, Shared> {
		match self.shared.lock() {
			Ok(g) => g,
			Err(p) => p.into_inner(),
		}
	}
	pub fn finding(&self, prop: &'static str, tid: Tid, sig: impl Into<String>, detail: impl Into<String>) {
		let mut s = self.sh();
		let step = s.cur_step;
		let sig = sig.into();
		if s.findings.len() < 64 {
			s.findings.push(Finding { prop, sig, detail: detail.into(), step, tid });
		}
	}
	pub fn label(&self, l: &str) {
		*self.sh().labels.entry(l.to_string()).or_insert(0) += 1;
	}
	pub fn log(&self, l: String) {
		let mut s = self.sh();
		if s.log.len() < 400 {
			s.log.push(l);
		}
	}
}

pub struct Held {
	pub g: Box<dyn DynGuard>,
	pub target: TargetRef,
	pub read: bool,
	pub flat: Flat,
	/// model poison states at the moment of the acquisition: the Ok/Err inside
	/// a guard is decided when the guard is made, not when it is looked at
	pub pois_snapshot: HashMap<WrapId, PState>,
	/// owner table right before the acquisition (quiescent mode: dropping the guard must restore it)
	pub table_before: Option<Vec<(Option<Tid>, Vec<Tid>)>>,
}

pub struct ThreadCtx {
	pub tid: Tid,
	pub key: Option<ThreadKey>,
	pub guard: Option<Held>,
	/// the key (or a guard containing it) was leaked with mem::forget
	pub key_lost: bool,
	pub aborted: bool,
}

impl ThreadCtx {
	pub fn new(tid: Tid) -> ThreadCtx {
		ThreadCtx { tid, key: None, guard: None, key_lost: false, aborted: false }
	}
	pub fn key_alive(&self) -> bool {
		self.key.is_some() || self.guard.is_some() || self.key_lost
	}
}

pub enum PanicKind {
	User,
	Abort,
	Fault,
	Killed(String),
	Other(String),
}

pub fn classify_panic(p: Box<dyn std::any::Any + Send>) -> PanicKind {
	if p.is::<UserPanic>() {
		return PanicKind::User;
	}
	if p.is::<VerifAbort>() {
		return PanicKind::Abort;
	}
	if p.is::<InjectedFault>() {
		return PanicKind::Fault;
	}
	let msg = if let Some(s) = p.downcast_ref::<&str>() {
		s.to_string()
	} else if let Some(s) = p.downcast_ref::<String>() {
		s.clone()
	} else {
		"<non-string panic payload>".to_string()
	};
	if msg.contains("has been killed") {
		PanicKind::Killed(msg)
	} else {
		PanicKind::Other(msg)
	}
}

fn kind_name(env: &Env, t: TargetRef) -> String {
	match t {
		TargetRef::Leaf(i) => {
			let d = &env.sem.spec.leaves[i];
			format!("{}{:?}", "P".repeat(d.wraps as usize), d.ty)
		}
		TargetRef::Coll(c) => {
			let s = &env.sem.spec.colls[c];
			format!(
				"{}{:?}<{:?}:{}>",
				if s.pois { "P" } else { "" },
				s.kind,
				s.cont,
				match &s.content {
					Content::ByRef(_) => "ref",
					Content::ByVal(_) => "val",
				}
			)
		}
	}
}

/// multiset comparison of the caller's held set with the leaves of `flat`
fn held_matches(held: &[(Lid, bool)], flat: &Flat, read: bool) -> bool {
	let mut a: Vec<(Lid, bool)> = held.to_vec();
	let mut b: Vec<(Lid, bool)> = flat.pos.iter().map(|p| (p.leaf, read)).collect();
	a.sort();
	b.sort();
	a == b
}

fn fmt_held(h: &[(Lid, bool)]) -> String {
	let v: Vec<String> = h.iter().map(|(l, s)| format!("L{}{}", l, if *s { "(s)" } else { "(x)" })).collect();
	format!("[{}]", v.join(","))
}

/// holds the thread is expected to have besides the ones of the current call:
/// leaked ones
fn expected_background(env: &Env, tid: Tid) -> Vec<(Lid, bool)> {
	env.sh().leaked.iter().filter(|(t, _, _)| *t == tid).map(|(_, l, s)| (*l, *s)).collect()
}

fn held_now(env: &Env, tid: Tid) -> Vec<(Lid, bool)> {
	// held set minus the holds this thread leaked on purpose earlier
	let mut h = env.exec.held_by(tid);
	for b in expected_background(env, tid) {
		if let Some(p) = h.iter().position(|x| *x == b) {
			h.remove(p);
		}
	}
	h
}

/// would a try-acquisition of `flat` in mode `read` succeed in this table?
fn model_try_ok(table: &[(Option<Tid>, Vec<Tid>)], flat: &Flat, read: bool) -> bool {
	flat.pos.iter().all(|p| {
		let (x, s) = &table[p.leaf as usize];
		if read {
			x.is_none()
		} else {
			x.is_none() && s.is_empty()
		}
	})
}

fn probe_key(env: &Env, ctx: &ThreadCtx, expect_alive: bool, whereabouts: &str) {
	match ThreadKey::get() {
		Some(k) => {
			if expect_alive {
				env.finding(
					"C06",
					ctx.tid,
					format!("second-key|{whereabouts}"),
					format!("ThreadKey::get() returned a key while this thread's key is alive ({whereabouts})"),
				);
			}
			drop(k);
		}
		None => {
			if !expect_alive {
				env.finding(
					"C06",
					ctx.tid,
					format!("key-not-obtainable|{whereabouts}"),
					format!("ThreadKey::get() returned None although the key is not alive ({whereabouts})"),
				);
			}
		}
	}
}

struct SectionInfo<'a> {
	target: TargetRef,
	read: bool,
	flat: &'a Flat,
	scoped: bool,
	snapshot: Option<&'a HashMap<WrapId, PState>>,
}

/// Visit the section's leaves and run the C02 / C10 per-position oracles.
fn touch(env: &Env, tid: Tid, sec: &SectionInfo<'_>, leaves: &mut dyn Leaves) {
	let mut i = 0usize;
	let mut pois = Vec::new();
	let held = env.exec.held_by(tid);
	leaves.visit(&mut pois, &mut |pois: &[bool], acc: Access<'_>| {
		let Some(pos) = sec.flat.pos.get(i) else {
			env.finding(
				"C02",
				tid,
				"routing|extra-position",
				format!("section on {:?} exposes more protected values than the collection declares", sec.target),
			);
			i += 1;
			return;
		};
		let is_mut = matches!(acc, Access::Mut(_));
		if acc.get().id != pos.leaf {
			env.finding(
				"C02",
				tid,
				format!("routing|{}", kind_name(env, sec.target)),
				format!(
					"position {i} of a section on {:?} shows the value of lock L{} but the declared member there is L{}",
					sec.target,
					acc.get().id,
					pos.leaf
				),
			);
		}
		let lid = acc.get().id;
		let ok = if is_mut {
			held.contains(&(lid, false))
		} else {
			held.contains(&(lid, true)) || held.contains(&(lid, false))
		};
		if !ok {
			env.finding(
				"C02",
				tid,
				format!("held-at-use|{}|{}", kind_name(env, sec.target), if sec.scoped { "scoped" } else { "guard" }),
				format!(
					"thread {tid} dereferences the value of L{lid} ({}) at position {i} of {:?} without holding it; held = {}",
					if is_mut { "mutably" } else { "shared" },
					sec.target,
					fmt_held(&held)
				),
			);
		}
		if is_mut == sec.read {
			env.finding(
				"C02",
				tid,
				"access-kind",
				format!("a {} section on {:?} hands out a {} reference", if sec.read { "read" } else { "write" }, sec.target, if is_mut { "mutable" } else { "shared" }),
			);
		}
		// continuity
		{
			let mut sh = env.sh();
			if (lid as usize) < sh.shadow.len() {
				let shadow = sh.shadow[lid as usize];
				if acc.get().ver != shadow {
					drop(sh);
					env.finding(
						"C02",
						tid,
						"continuity",
						format!("L{lid} shows version {} but the last exclusive section left {}", acc.get().ver, shadow),
					);
				} else if let Access::Mut(p) = acc {
					p.ver += 1;
					sh.shadow[lid as usize] += 1;
				}
			}
		}
		// poison statuses along the path
		if pois.len() != pos.wraps.len() {
			env.finding(
				"C10",
				tid,
				"wrapper-depth",
				format!("position {i} of {:?}: {} Ok/Err layers seen, {} Poisonable wrappers declared", sec.target, pois.len(), pos.wraps.len()),
			);
		} else {
			for (b, w) in pois.iter().zip(pos.wraps.iter()) {
				check_poison_obs_at(env, tid, w, *b, "member-result", sec.snapshot);
			}
		}
		i += 1;
	});
	if i < sec.flat.pos.len() {
		env.finding(
			"C02",
			tid,
			"routing|missing-position",
			format!("section on {:?} exposes {i} protected values, the collection declares {}", sec.target, sec.flat.pos.len()),
		);
	}
}

fn check_poison_obs(env: &Env, tid: Tid, w: &WrapId, observed_err: bool, how: &str) {
	check_poison_obs_at(env, tid, w, observed_err, how, None)
}

fn check_poison_obs_at(
	env: &Env,
	tid: Tid,
	w: &WrapId,
	observed_err: bool,
	how: &str,
	snapshot: Option<&HashMap<WrapId, PState>>,
) {
	let st = match snapshot {
		Some(m) => m.get(w).cloned().unwrap_or(PState::Clean),
		None => env.sh().poison.get(w).cloned().unwrap_or(PState::Clean),
	};
	match st {
		PState::Clean => {
			if observed_err {
				env.finding(
					"C10",
					tid,
					format!("spurious-poison|{how}"),
					format!("wrapper {w} reports poisoned ({how}) but no panic happened during a hold on it since creation / clear_poison"),
				);
			}
		}
		PState::Poisoned(cause) => {
			env.label("poison_observed_after_panic");
			if !observed_err {
				env.finding(
					"C10",
					tid,
					format!("not-poisoned|{cause}|{how}"),
					format!("wrapper {w} reports Ok ({how}) although a panic unwound during an exclusive hold on it ({cause})"),
				);
			}
		}
		PState::Unspec => {}
	}
}

/// model update for a panic inside a section
fn model_panic(env: &Env, tid: Tid, sec: &SectionInfo<'_>) {
	if env.opts.conc {
		env.exec.set_unwinding(tid, true);
	}
	let kind = kind_name(env, sec.target);
	// a scoped call of a Poisonable poisons that wrapper in its unwind handler
	// ("own"); every other wrapper reached through the closure argument is
	// "inner".  Through guards every wrapper has its own PoisonRef.
	let own = own_wrappers(env, sec.target).first().cloned();
	let mut sh = env.sh();
	// the target's own wrappers count even when it has no leaf at all
	let mut own_all = own_wrappers(env, sec.target);
	if !sec.scoped {
		// through a guard every reachable wrapper has a PoisonRef, also the leafless ones
		own_all = sec.flat.wrap_set.clone();
	}
	let own_pos = Pos { leaf: 0, ty: LeafTy::R, wraps: own_all, group: u32::MAX };
	for pos in sec.flat.pos.iter().chain(std::iter::once(&own_pos)) {
		for w in &pos.wraps {
			let role = if !sec.scoped {
				"guard"
			} else if Some(w) == own.as_ref() {
				"scoped-own"
			} else {
				"scoped-inner"
			};
			let cause = format!("{role}|{kind}");
			let cur = sh.poison.get(w).cloned().unwrap_or(PState::Clean);
			let new = if sec.read {
				match cur {
					PState::Clean => PState::Unspec,
					o => o,
				}
			} else {
				match cur {
					PState::Poisoned(c) => PState::Poisoned(c),
					_ => PState::Poisoned(cause),
				}
			};
			if env.opts.conc && !sec.flat.pos.iter().any(|p| p.wraps.contains(w)) {
				// the flags are set one by one while the guard / handler unwinds,
				// with scheduling points in between (every raw unlock).  A wrapper
				// that encloses a lock of the section can only be looked at by an
				// acquisition after that lock was released, i.e. after its flag
				// was set; a wrapper that encloses no lock at all (a Poisonable
				// around an empty collection) can be acquired by another thread
				// at any of those points.  For those the state is open until the
				// panic has finished unwinding; then it is as computed here.
				sh.pending_poison.entry(tid).or_default().push((w.clone(), new));
				sh.poison.insert(w.clone(), PState::Unspec);
			} else {
				sh.poison.insert(w.clone(), new);
			}
		}
	}
}

/// the panic of `tid` has finished unwinding: its poison states take effect
fn commit_panic(env: &Env, tid: Tid) {
	env.exec.set_unwinding(tid, false);
	let mut sh = env.sh();
	if let Some(v) = sh.pending_poison.remove(&tid) {
		for (w, st) in v {
			let cur = sh.poison.get(&w).cloned().unwrap_or(PState::Clean);
			let new = match (cur, st) {
				// somebody else's panic was committed in the meantime
				(PState::Poisoned(c), _) => PState::Poisoned(c),
				(_, st) => st,
			};
			sh.poison.insert(w, new);
		}
	}
}

/// wrappers of a target that enclose *all* of its positions from the top
/// (the target's own Poisonable layers)
fn own_wrappers(env: &Env, t: TargetRef) -> Vec<WrapId> {
	match t {
		TargetRef::Leaf(i) => (0..env.sem.spec.leaves[i].wraps).map(|k| format!("L{i}.{k}")).collect(),
		TargetRef::Coll(c) => {
			if env.sem.spec.colls[c].pois {
				vec![format!("C{c}")]
			} else {
				vec![]
			}
		}
	}
}

fn run_body(
	env: &Env,
	ctx_tid: Tid,
	key_alive_inside: bool,
	sec: &SectionInfo<'_>,
	ops: &[BodyOp],
	leaves: &mut dyn Leaves,
	guard_dbg: Option<&dyn Fn() -> String>,
) {
	for op in ops {
		if env.exec.is_abort() {
			return;
		}
		match op {
			BodyOp::Touch => touch(env, ctx_tid, sec, leaves),
			BodyOp::ProbeKey => {
				let fake = ThreadCtx::new(ctx_tid);
				probe_key(env, &fake, key_alive_inside, if sec.scoped { "inside scoped closure" } else { "while guard alive" });
			}
			BodyOp::Yield => {
				let _ = env.exec.yield_point(ctx_tid);
			}
			BodyOp::DebugTarget(t) => {
				non_acquiring(env, ctx_tid, &format!("debug {t:?} in section"), || {
					if let Some(tg) = env.world.target(*t) {
						let _ = tg.debug_fmt();
					}
				});
			}
			BodyOp::DebugGuard => {
				if let Some(f) = guard_dbg {
					non_acquiring(env, ctx_tid, "debug guard", || {
						let _ = f();
					});
				}
			}
			BodyOp::Panic => {
				model_panic(env, ctx_tid, sec);
				env.label("panic_in_section");
				std::panic::panic_any(UserPanic);
			}
		}
	}
}

/// Run a non-acquiring operation inside its own frame and check C17.
fn non_acquiring(env: &Env, tid: Tid, label: &str, f: impl FnOnce()) {
	// under concurrency only the caller's own holds can be compared
	let snapshot = |env: &Env| -> Vec<(Option<Tid>, Vec<Tid>)> {
		if env.opts.conc {
			let mut h = env.exec.held_by(tid);
			h.sort();
			h.into_iter().map(|(l, s)| (Some(if s { 1 } else { 0 }), vec![(l & 0xff) as Tid, (l >> 8) as Tid])).collect()
		} else {
			env.exec.table()
		}
	};
	let before = snapshot(env);
	let n0 = env.exec.notices().len();
	let t0 = env.exec.trace_len();
	env.exec.begin_call(tid, CallKind::NonAcquiring, label);
	let r = catch_unwind(AssertUnwindSafe(f));
	env.exec.end_call(tid);
	let after = snapshot(env);
	let notices = env.exec.notices();
	for n in &notices[n0.min(notices.len())..] {
		match n {
			Notice::WaitInNonAcquiring { tid: t, .. } | Notice::SelfWait { tid: t, .. } if *t != tid => continue,
			_ => {}
		}
		if let Notice::WaitInNonAcquiring { lid, .. } = n {
			env.finding(
				"C17",
				tid,
				format!("waits|{}", label.split(' ').next().unwrap_or("")),
				format!("non-acquiring operation `{label}` waited for L{lid}"),
			);
		}
		if let Notice::SelfWait { lid, .. } = n {
			env.finding(
				"C17",
				tid,
				format!("self-wait|{}", label.split(' ').next().unwrap_or("")),
				format!("non-acquiring operation `{label}` blocked on L{lid}, which the caller holds"),
			);
		}
		// a release of a hold the operation never took (someone else's hold, or
		// the caller's own in another mode): the verification lock refuses it, a
		// real raw lock would be corrupted by it
		if let Notice::IllegalRelease { tid: t, lid, op, kind, .. } = n {
			if *t == tid {
				env.finding(
					"C17",
					tid,
					format!("releases-foreign-hold|{}|{kind:?}", label.split(' ').next().unwrap_or("")),
					format!("non-acquiring operation `{label}` issued {op:?} on L{lid}, a hold it never took ({kind:?})"),
				);
			}
		}
	}
	match r {
		Ok(()) => {
			if before != after && !env.exec.is_abort() {
				env.finding(
					"C17",
					tid,
					format!("disturbs|{}", label.split(' ').next().unwrap_or("")),
					format!("non-acquiring operation `{label}` changed the hold state of the locks"),
				);
			}
			let ev = env.exec.trace_from(t0);
			if !ev.is_empty() {
				env.label("nonacq_transient_raw_ops");
			}
		}
		Err(p) => match classify_panic(p) {
			PanicKind::Abort => {}
			PanicKind::Fault => {
				// an injected raw panic reached the caller of the operation
				env.sh().last_outcome = "panicked".into();
			}
			PanicKind::User => {
				// user code called back by the operation (the payload's own Debug)
				// panicked: whatever the operation took for itself must be gone
				if before != after && !env.exec.is_abort() {
					let what = label.split(' ').next().unwrap_or("");
					env.finding(
						"C17",
						tid,
						format!("disturbs|{what}|payload-panicked"),
						format!("non-acquiring operation `{label}` was abandoned by a panic of the payload's own code and left the hold state of the locks changed"),
					);
					env.finding(
						"C11",
						tid,
						format!("leak-after-panic|{what}"),
						format!("a panic in user code called by `{label}` (the payload's Debug) left locks held"),
					);
					env.finding(
						"C10",
						tid,
						format!("unusable-after-panic|{what}|payload-panicked"),
						format!("a panic in user code called by `{label}` (the payload's Debug) left a lock held for good: it can never be acquired again"),
					);
				}
			}
			PanicKind::Killed(_) => {}
			PanicKind::Other(m) => env.finding("PANIC", tid, format!("unexpected-panic|nonacq|{}", first_words(&m)), m),
		},
	}
}

pub fn first_words(m: &str) -> String {
	m.split_whitespace().take(6).collect::<Vec<_>>().join(" ")
}

/// release parity: the release events of `tid` since trace index `t0` must be
/// exactly one release per entry of `expect`, in its mode
fn check_release_parity(env: &Env, tid: Tid, t0: usize, expect: &[(Lid, bool)], what: &str, prop: &'static str) {
	let ev = env.exec.trace_from(t0);
	let mut rel: Vec<(Lid, bool)> = ev
		.iter()
		.filter(|e| e.tid == tid && e.op.is_release() && e.out == Outcome::Ok)
		.map(|e| (e.lid, e.op.is_shared()))
		.collect();
	let mut acq: Vec<(Lid, bool)> = ev
		.iter()
		.filter(|e| e.tid == tid && e.op.is_acquire() && matches!(e.out, Outcome::Ok | Outcome::OkWaited))
		.map(|e| (e.lid, e.op.is_shared()))
		.collect();
	// releases that undo acquisitions of the same slice (transient) cancel out
	let mut exp: Vec<(Lid, bool)> = expect.to_vec();
	exp.append(&mut acq);
	rel.sort();
	exp.sort();
	if rel != exp {
		env.finding(
			prop,
			tid,
			format!("release-parity|{what}"),
			format!("{what}: releases issued {} but holds to release were {}", fmt_held(&rel), fmt_held(&exp)),
		);
	}
}

/// after a user panic was caught: releases that the audit refused during the
/// unwinding count against "released exactly once" (C11)
fn illegal_releases_after_panic(env: &Env, tid: Tid, n0: usize, what: &str) {
	let notices = env.exec.notices();
	for n in &notices[n0.min(notices.len())..] {
		if let Notice::IllegalRelease { tid: t, lid, op, kind, during_fault: false, .. } = n {
			if *t == tid {
				env.finding(
					"C11",
					tid,
					format!("illegal-release-after-panic|{kind:?}|{what}"),
					format!("while unwinding a user panic out of {what} the library issued {} on L{lid}, which the thread does not hold that way ({kind:?}): not released exactly once", op.short()),
				);
				return;
			}
		}
	}
}

/// C03: a raw operation (user code: the raw lock) found the thread's key
/// obtainable while the thread held locks that it did not leak on purpose
fn key_free_findings(env: &Env, n0: usize) {
	let notices = env.exec.notices();
	for n in &notices[n0.min(notices.len())..] {
		if let Notice::KeyFreeWhileHolding { tid, lid, op, frame, held } = n {
			let bg = expected_background(env, *tid);
			let extra: Vec<(Lid, bool)> = held.iter().filter(|h| !bg.contains(h)).cloned().collect();
			if extra.is_empty() {
				continue;
			}
			let what = env.exec.frame_label(*frame);
			env.finding(
				"C03",
				*tid,
				format!("key-obtainable-while-holding|{}|{}", first_words(&what), if op.is_release() { "release" } else { "acquire" }),
				format!(
					"inside {} on L{lid} (issued by {what}) ThreadKey::get() hands out this thread's key while the thread still holds {}: a raw lock, which is user code, can start a new acquisition there",
					op.short(),
					fmt_held(&extra)
				),
			);
			return;
		}
	}
}

fn illegal_release_findings(env: &Env, n0: usize) {
	let notices = env.exec.notices();
	for n in &notices[n0.min(notices.len())..] {
		if let Notice::IllegalRelease { tid, lid, op, kind, during_fault, others, .. } = n {
			if *during_fault {
				// evaluated by the C12 fault oracle with the call site in the signature
				continue;
			}
			let prop = "C05";
			env.finding(
				prop,
				*tid,
				format!("illegal-release|{kind:?}"),
				format!("thread {tid} issued {} on L{lid} which it does not hold that way ({kind:?})", op.short()),
			);
			// a release in the wrong mode resets a real reader-writer lock as a
			// whole: the other readers lose their holds as well
			if *kind == crate::exec::IllegalKind::Foreign || (*kind == crate::exec::IllegalKind::WrongMode && *others) {
				// the lock is held by somebody else at this moment: with a real raw
				// lock that holder's section stops being exclusive
				env.finding(
					"C02",
					*tid,
					format!("releases-hold-of-another-thread|{}", op.short()),
					format!("thread {tid} issued {} on L{lid} while another thread holds it: that thread's section is no longer protected", op.short()),
				);
				env.finding(
					"C04",
					*tid,
					format!("hold-taken-away-by-foreign-release|{}", op.short()),
					format!("thread {tid} issued {} on L{lid} while another thread holds it: that thread's acquisition no longer holds every lock it returned with", op.short()),
				);
			}
		}
	}
}

/// a fmt sink that fails after a number of bytes
struct BoundedSink {
	left: usize,
}

impl std::fmt::Write for BoundedSink {
	fn write_str(&mut self, s: &str) -> std::fmt::Result {
		if s.len() > self.left {
			self.left = 0;
			return Err(std::fmt::Error);
		}
		self.left -= s.len();
		Ok(())
	}
}

pub enum StepEnd {
	Continue,
	Aborted,
}

fn target_of(env: &Env, t: TargetRef) -> Option<&'static dyn DynTarget> {
	match t {
		TargetRef::Leaf(i) if i < env.world.leaves.len() => env.world.target(t),
		TargetRef::Coll(c) if c < env.world.colls.len() => env.world.target(t),
		_ => None,
	}
}

/// Execute one step.  Steps whose precondition does not hold in the current
/// model state are skipped (counted), so every byte string decodes to a valid run.
pub fn run_step(env: &Env, ctx: &mut ThreadCtx, idx: usize, step: &Step) -> StepEnd {
	if env.exec.is_abort() {
		return StepEnd::Aborted;
	}
	env.sh().cur_step = Some(idx);
	let tid = ctx.tid;
	let n0 = env.exec.notices().len();
	let mut executed = true;
	let range_start = env.exec.trace_len();
	let held_before = if env.opts.faults { env.exec.held_by(tid) } else { Vec::new() };
	match step {
		Step::GetKey => {
			let expect_alive = ctx.key_alive();
			match ThreadKey::get() {
				Some(k) => {
					if expect_alive {
						env.finding("C06", tid, "second-key|get", "ThreadKey::get() returned a second key while the first is alive");
						drop(k);
					} else {
						ctx.key = Some(k);
					}
				}
				None => {
					if !expect_alive {
						env.finding("C06", tid, "key-not-obtainable|get", "ThreadKey::get() returned None although the key was dropped or handed back");
					}
				}
			}
		}
		Step::DropKey => {
			if let Some(k) = ctx.key.take() {
				drop(k);
			} else {
				executed = false;
			}
		}
		Step::ForgetKey => {
			if let Some(k) = ctx.key.take() {
				std::mem::forget(k);
				ctx.key_lost = true;
				env.label("forget_key");
			} else {
				executed = false;
			}
		}
		Step::ParkKey { cont, route } => {
			executed = step_park_key(env, ctx, *cont, *route);
		}
		Step::OwnedTemp { shape, leak, kill, op } => {
			executed = step_owned_temp(env, ctx, *shape, *leak, *kill, *op);
		}
		Step::ProbeKeyMany { n } => {
			// a refused request must stay refused however often it is repeated
			let alive = ctx.key_alive();
			if alive {
				for i in 0..*n {
					if let Some(k) = ThreadKey::get() {
						env.finding(
							"C06",
							tid,
							"second-key|repeated-get".to_string(),
							format!("request number {} for the key was granted although the thread's key is alive (the earlier ones were refused)", i + 1),
						);
						drop(k);
						break;
					}
				}
				env.label("probe_key_many");
			} else {
				executed = false;
			}
		}
		Step::Acquire { target, read, try_ } => {
			executed = step_acquire(env, ctx, *target, *read, *try_);
		}
		Step::GuardOps { ops } => {
			executed = step_guard_ops(env, ctx, ops);
		}
		Step::Release { how } => {
			executed = step_release(env, ctx, *how);
		}
		Step::Scoped { target, read, try_, owned_key, body } => {
			executed = step_scoped(env, ctx, *target, *read, *try_, *owned_key, body);
		}
		Step::PhantomHold { leaf, shared, transient } => {
			if (*leaf as usize) < env.sem.nlocks {
				let who = {
					let mut sh = env.sh();
					let base = if *transient { PHANTOM_T } else { PHANTOM };
					let w = base + (sh.next_phantom % 50);
					sh.next_phantom += 1;
					w
				};
				if *transient {
					env.label("phantom_transient");
				}
				if env.exec.phantom_hold(*leaf, *shared, who) {
					env.sh().phantoms.push((*leaf, *shared, who));
				} else {
					executed = false;
				}
			} else {
				executed = false;
			}
		}
		Step::PhantomRelease { leaf } => {
			let p = {
				let mut sh = env.sh();
				match sh.phantoms.iter().position(|(l, _, _)| l == leaf) {
					Some(i) => Some(sh.phantoms.remove(i)),
					None => None,
				}
			};
			match p {
				Some((l, _, who)) => {
					if !env.exec.phantom_release(l, who) {
						// a transient phantom that already let go
						executed = false;
					}
				}
				None => executed = false,
			}
		}
		Step::UnwindingDrop { inner } => {
			if matches!(**inner, Step::Scoped { .. } | Step::GetKey) {
				env.label(if matches!(**inner, Step::GetKey) { "get_key_in_destructor_during_unwind" } else { "scoped_call_in_destructor_during_unwind" });
				struct OnDrop<F: FnMut()>(F);
				impl<F: FnMut()> Drop for OnDrop<F> {
					fn drop(&mut self) {
						(self.0)()
					}
				}
				let ctxp: *mut ThreadCtx = ctx;
				let mut end = StepEnd::Continue;
				let endp: *mut StepEnd = &mut end;
				let _ = catch_unwind(AssertUnwindSafe(|| {
					let _d = OnDrop(|| {
						// nothing may escape from a destructor that runs during an unwinding
						crate::exec::set_unwind_drop(true);
						let r = catch_unwind(AssertUnwindSafe(|| unsafe { run_step(env, &mut *ctxp, idx, inner) }));
						crate::exec::set_unwind_drop(false);
						match r {
							Ok(e) => unsafe { *endp = e },
							Err(p) => {
								if let PanicKind::Other(m) = classify_panic(p) {
									env.finding("PANIC", tid, format!("unexpected-panic|in-destructor|{}", first_words(&m)), m);
								}
								unsafe { *endp = StepEnd::Aborted };
							}
						}
					});
					std::panic::panic_any(crate::exec::UserPanic);
				}));
				if matches!(end, StepEnd::Aborted) {
					return StepEnd::Aborted;
				}
			} else {
				executed = false;
			}
		}
		Step::Kill { leaf } => {
			if *leaf < env.world.leaves.len() {
				if let Some(tg) = env.world.target(TargetRef::Leaf(*leaf)) {
					non_acquiring(env, tid, &format!("kill L{leaf}"), || {
						tg.kill();
					});
					let mut sh = env.sh();
					if !sh.killed.contains(&(*leaf as Lid)) {
						sh.killed.push(*leaf as Lid);
					}
					drop(sh);
					env.label("killed_lock");
				} else {
					executed = false;
				}
			} else {
				executed = false;
			}
		}
		Step::IsPoisoned { target } => match target_of(env, *target) {
			Some(t) => {
				let mut got = None;
				non_acquiring(env, tid, "is_poisoned", || got = t.is_poisoned());
				if let (Some(b), Some(w)) = (got, own_wrappers(env, *target).first()) {
					check_poison_obs(env, tid, w, b, "is_poisoned");
					env.label("is_poisoned_observed");
				} else {
					executed = false;
				}
			}
			None => executed = false,
		},
		Step::ClearPoison { target } => match target_of(env, *target) {
			Some(t) => {
				let mut did = false;
				non_acquiring(env, tid, "clear_poison", || did = t.clear_poison());
				if did {
					if let Some(w) = own_wrappers(env, *target).first() {
						let mut sh = env.sh();
						if matches!(sh.poison.get(w), Some(PState::Poisoned(_))) {
							drop(sh);
							env.label("clear_after_poison");
							sh = env.sh();
						}
						sh.poison.insert(w.clone(), PState::Clean);
					}
				} else {
					executed = false;
				}
			}
			None => executed = false,
		},
		Step::Debug { target, cap, payload } => match target_of(env, *target) {
			Some(t) => {
				crate::types::P_DEBUG_MODE.with(|m| m.set(*payload));
				non_acquiring(env, tid, &format!("debug {}", kind_name(env, *target)), || {
					let mut sink = BoundedSink { left: cap.map(|n| n as usize).unwrap_or(usize::MAX) };
					if t.debug_fmt_to(&mut sink).is_err() {
						env.label("debug_abandoned_part_way");
					}
				});
				crate::types::P_DEBUG_MODE.with(|m| m.set(0));
				if *payload == 2 {
					env.label("debug_payload_panics");
				}
			}
			None => executed = false,
		},
		Step::Accessors { target } => match target_of(env, *target) {
			Some(t) => non_acquiring(env, tid, &format!("accessors {}", kind_name(env, *target)), || {
				let _ = t.accessors();
			}),
			None => executed = false,
		},
		Step::TempColl { kind, members, then } => {
			executed = step_temp_coll(env, ctx, *kind, members, *then);
		}
		Step::ProbeFaulted { fallback } => {
			executed = step_probe_faulted(env, ctx, *fallback);
		}
		Step::MutateThenLock { .. } => {
			// no longer expressible: since the fix in /repo the mutable accessors
			// of a by-reference retrying collection do not compile (decided by the
			// TYPES family C01-mutation-after-check)
			executed = false;
		}
	}
	illegal_release_findings(env, n0);
	key_free_findings(env, n0);
	if env.opts.faults {
		let end = env.exec.trace_len();
		let held_after = env.exec.held_by(tid);
		let outcome = std::mem::take(&mut env.sh().last_outcome);
		env.sh().step_ranges.push(StepRange { step: idx, tid, start: range_start, end, held_before, held_after, outcome });
	}
	{
		let mut sh = env.sh();
		if executed {
			sh.executed_steps += 1;
		} else {
			sh.skipped_steps += 1;
		}
	}
	if env.exec.is_abort() {
		ctx.aborted = true;
		return StepEnd::Aborted;
	}
	// C06: the key is obtainable iff it is not alive
	if executed {
		probe_key(env, ctx, ctx.key_alive(), "after step");
	}
	StepEnd::Continue
}

pub const TEMP_SHAPES: u8 = 10;

/// One owned value over fresh locks `lids` (all of one mode), taken through
/// leak / kill / a non-acquiring operation that needs ownership.
#[allow(clippy::too_many_arguments)]
fn temp_ops<T: std::fmt::Debug + happylock::lockable::RawLock>(
	env: &Env,
	ctx: &mut ThreadCtx,
	key: ThreadKey,
	label: &str,
	obj: T,
	lids: &[Lid],
	shared_leak: bool,
	leak: bool,
	kill: bool,
	op: u8,
	do_leak: impl FnOnce(&T, ThreadKey),
	get_mut: impl FnOnce(&mut T),
	into_inner: impl FnOnce(T),
	into_child: impl FnOnce(T),
) {
	let tid = ctx.tid;
	if leak {
		do_leak(&obj, key);
		ctx.key_lost = true;
		for l in lids {
			env.sh().leaked.push((tid, *l, shared_leak));
		}
		env.label("owned_temp_leaked");
	} else {
		ctx.key = Some(key);
	}
	if kill {
		happylock::lockable::RawLock::poison(&obj);
		env.label("owned_temp_killed");
	}
	let opname = ["get_mut", "into_inner", "into_child", "debug"][(op % 4) as usize];
	// locks that must still refuse a try afterwards: held for ever through the
	// leaked exclusive guard, or killed
	// (`{:?}` of a boxed collection prints its pointer, not its members)
	let expect_locked = if ((leak && !shared_leak) || kill) && !label.contains("Boxed") { Some(lids.len()) } else { None };
	let gone = std::cell::Cell::new(None);
	let gone_ref = &gone;
	non_acquiring(env, tid, &format!("{opname} of an owned {label}"), move || match op % 4 {
		0 => {
			let mut o = obj;
			get_mut(&mut o);
			// `&mut` access hands out data, it does not change who holds what
			if let Some(n) = expect_locked {
				let shown = format!("{o:?}").matches("<locked>").count();
				if shown < n {
					gone_ref.set(Some((shown, n)));
				}
			}
			drop(o)
		}
		1 => into_inner(obj),
		2 => into_child(obj),
		_ => {
			let _ = format!("{obj:?}");
			drop(obj)
		}
	});
	if let Some((shown, n)) = gone.get() {
		env.finding(
			"C17",
			tid,
			format!("disturbs|get_mut|hold-or-kill-undone|{label}"),
			format!("after get_mut of an owned {label} only {shown} of its {n} locks refuse a try, although all of them are held through a leaked guard or were killed"),
		);
	}
}

fn step_owned_temp(env: &Env, ctx: &mut ThreadCtx, shape: u8, leak: bool, kill: bool, op: u8) -> bool {
	use crate::types::R;
	use crate::world::{new_m, new_r};
	use happylock::collection::{BoxedLockCollection as Boxed, OwnedLockCollection as Owned, RetryingLockCollection as Retry};
	use happylock::Poisonable;
	if ctx.guard.is_some() {
		return false;
	}
	let Some(mut key) = ctx.key.take() else { return false };
	let base = {
		let mut sh = env.sh();
		if sh.temp_lid_next == 0 {
			sh.temp_lid_next = env.sem.nlocks as Lid + 8;
		}
		let b = sh.temp_lid_next;
		sh.temp_lid_next += 2;
		b
	};
	let (a, b) = (base, base + 1);
	env.exec.ensure_locks(b as usize + 1);
	let shape = shape % TEMP_SHAPES;
	match shape {
		0 => {
			let o = new_m(a, &mut key);
			temp_ops(env, ctx, key, "Mutex", o, &[a], false, leak, kill, op, |o, k| std::mem::forget(o.lock(k)), |o| { let _ = o.get_mut(); }, |o| drop(o.into_inner()), |o| drop(o.into_inner()))
		}
		1 => {
			let o = new_r(a, &mut key);
			let sh = op & 4 != 0;
			temp_ops(
				env,
				ctx,
				key,
				"RwLock",
				o,
				&[a],
				sh,
				leak,
				kill,
				op,
				move |o: &R, k| {
					if sh {
						std::mem::forget(o.read(k))
					} else {
						std::mem::forget(o.write(k))
					}
				},
				|o| {
					let _ = o.get_mut();
				},
				|o| drop(o.into_inner()),
				|o| drop(o.into_inner()),
			)
		}
		2 => {
			let o = Poisonable::new(new_m(a, &mut key));
			temp_ops(env, ctx, key, "Poisonable<Mutex>", o, &[a], false, leak, kill, op, |o, k| std::mem::forget(o.lock(k)), |o| drop(o.get_mut()), |o| drop(o.into_inner()), |o| drop(o.into_child()))
		}
		3 => {
			let o = Poisonable::new(new_r(a, &mut key));
			temp_ops(env, ctx, key, "Poisonable<RwLock>", o, &[a], true, leak, kill, op, |o, k| std::mem::forget(o.read(k)), |o| drop(o.get_mut()), |o| drop(o.into_inner()), |o| drop(o.into_child()))
		}
		4 => {
			let o = Owned::new([new_m(a, &mut key), new_m(b, &mut key)]);
			temp_ops(env, ctx, key, "Owned<[Mutex;2]>", o, &[a, b], false, leak, kill, op, |o, k| std::mem::forget(o.lock(k)), |o| drop(o.get_mut()), |o| drop(o.into_inner()), |o| drop(o.into_child()))
		}
		5 => {
			let o = Poisonable::new(Owned::new([new_r(a, &mut key), new_r(b, &mut key)]));
			temp_ops(env, ctx, key, "Poisonable<Owned<[RwLock;2]>>", o, &[a, b], true, leak, kill, op, |o, k| std::mem::forget(o.read(k)), |o| drop(o.get_mut()), |o| drop(o.into_inner()), |o| drop(o.into_child()))
		}
		6 => {
			let o = Retry::new(vec![new_r(a, &mut key), new_r(b, &mut key)]);
			temp_ops(env, ctx, key, "Retry<Vec<RwLock>>", o, &[a, b], false, leak, kill, op, |o, k| std::mem::forget(o.lock(k)), |o| drop(o.get_mut()), |o| drop(o.into_inner()), |o| drop(o.into_child()))
		}
		7 => {
			let o = Poisonable::new(Retry::new([new_m(a, &mut key), new_m(b, &mut key)]));
			temp_ops(env, ctx, key, "Poisonable<Retry<[Mutex;2]>>", o, &[a, b], false, leak, kill, op, |o, k| std::mem::forget(o.lock(k)), |o| drop(o.get_mut()), |o| drop(o.into_inner()), |o| drop(o.into_child()))
		}
		8 => {
			let o = Boxed::new([new_m(a, &mut key), new_m(b, &mut key)]);
			temp_ops(env, ctx, key, "Boxed<[Mutex;2]>", o, &[a, b], false, leak, kill, op, |o, k| std::mem::forget(o.lock(k)), |o| { let _ = o.iter().count(); }, |o| drop(o.into_inner()), |o| drop(o.into_child()))
		}
		_ => {
			let o = Poisonable::new(Boxed::new(vec![new_r(a, &mut key), new_r(b, &mut key)]));
			temp_ops(env, ctx, key, "Poisonable<Boxed<Vec<RwLock>>>", o, &[a, b], true, leak, kill, op, |o, k| std::mem::forget(o.read(k)), |o| drop(o.child_mut()), |o| drop(o.into_inner()), |o| drop(o.into_child()))
		}
	}
	true
}

type Slot = Option<ThreadKey>;

pub const PARK_CONTS: u8 = 10;

pub fn park_cont_name(cont: u8) -> &'static str {
	match cont % PARK_CONTS {
		0 => "Mutex",
		1 => "RwLock",
		2 => "Poisonable<Mutex>",
		3 => "Boxed<[Mutex;1]>",
		4 => "Owned<(Mutex,RwLock)>",
		5 => "Retry<Vec<Mutex>>",
		6 => "Boxed<Vec<Mutex>>",
		7 => "Boxed<Owned<[Mutex;2]>>",
		8 => "Poisonable<Boxed<[RwLock;1]>>",
		_ => "Boxed<(Mutex,Poisonable<RwLock>)>",
	}
}

/// One container that owns the parked key, taken through one end of life.
fn park_routes<C>(env: &Env, ctx: &mut ThreadCtx, label: &str, c: C, route: u8, into_inner: impl FnOnce(C) -> Slot, apart: impl FnOnce(C) -> Slot) {
	probe_key(env, ctx, true, &format!("key parked in {label}"));
	let back = |env: &Env, ctx: &mut ThreadCtx, k: Slot, how: &str| {
		if k.is_none() {
			env.finding("C06", ctx.tid, format!("parked-key-vanished|{label}|{how}"), format!("the key moved into the data of a {label} was not handed back by {how}"));
			ctx.key_lost = true;
		}
		ctx.key = k;
		probe_key(env, ctx, true, &format!("key taken back out of {label} by {how}"));
	};
	match route % 4 {
		0 => {
			drop(c);
			env.label("park_drop");
			probe_key(env, ctx, false, &format!("{label} that owned the key was dropped"));
		}
		1 => {
			std::mem::forget(c);
			ctx.key_lost = true;
			env.label("park_forget");
			probe_key(env, ctx, true, &format!("{label} that owned the key was leaked"));
		}
		2 => {
			let k = into_inner(c);
			env.label("park_into_inner");
			back(env, ctx, k, "into_inner");
		}
		_ => {
			let k = apart(c);
			env.label("park_apart");
			back(env, ctx, k, "into_child/get_mut");
		}
	}
}

fn step_park_key(env: &Env, ctx: &mut ThreadCtx, cont: u8, route: u8) -> bool {
	use happylock::collection::{OwnedLockCollection, RetryingLockCollection};
	use happylock::{LockCollection, Mutex as PM, Poisonable, RwLock as PR};
	if ctx.guard.is_some() {
		return false;
	}
	let Some(key) = ctx.key.take() else { return false };
	let cont = cont % PARK_CONTS;
	let label = park_cont_name(cont);
	let ok = |r: Result<Slot, happylock::poisonable::PoisonError<Slot>>| r.unwrap_or_else(|e| e.into_inner());
	match cont {
		0 => park_routes(env, ctx, label, PM::new(Some(key)), route, |m| m.into_inner(), |mut m| m.get_mut().take()),
		1 => park_routes(env, ctx, label, PR::new(Some(key)), route, |m| m.into_inner(), |mut m| m.get_mut().take()),
		2 => park_routes(
			env,
			ctx,
			label,
			Poisonable::new(PM::new(Some(key))),
			route,
			|p| ok(p.into_inner()),
			|mut p| match p.get_mut() {
				Ok(s) => s.take(),
				Err(mut e) => e.get_mut().take(),
			},
		),
		3 => park_routes(
			env,
			ctx,
			label,
			LockCollection::new([PM::new(Some(key))]),
			route,
			|c| {
				let [k] = c.into_inner();
				k
			},
			|c| {
				let [m] = c.into_child();
				m.into_inner()
			},
		),
		4 => park_routes(
			env,
			ctx,
			label,
			OwnedLockCollection::new((PM::new(7i32), PR::new(Some(key)))),
			route,
			|c| c.into_inner().1,
			|mut c| c.get_mut().1.take(),
		),
		5 => park_routes(
			env,
			ctx,
			label,
			RetryingLockCollection::new(vec![PM::new(Some(key))]),
			route,
			|c| Vec::from(c.into_inner()).pop().flatten(),
			|c| c.into_child().pop().and_then(|m| m.into_inner()),
		),
		6 => park_routes(
			env,
			ctx,
			label,
			LockCollection::new(vec![PM::new(None), PM::new(Some(key))]),
			route,
			|c| Vec::from(c.into_inner()).pop().flatten(),
			|c| c.into_child().pop().and_then(|m| m.into_inner()),
		),
		7 => park_routes(
			env,
			ctx,
			label,
			LockCollection::new(OwnedLockCollection::new([PM::new(Some(key)), PM::new(None)])),
			route,
			|c| {
				let [k, _] = c.into_inner();
				k
			},
			|c| {
				let [k, _] = c.into_child().into_inner();
				k
			},
		),
		8 => park_routes(
			env,
			ctx,
			label,
			Poisonable::new(LockCollection::new([PR::new(Some(key))])),
			route,
			|p| {
				let [k] = p.into_inner().unwrap_or_else(|e| e.into_inner());
				k
			},
			|p| {
				let [k] = p.into_child().unwrap_or_else(|e| e.into_inner()).into_inner();
				k
			},
		),
		_ => park_routes(
			env,
			ctx,
			label,
			LockCollection::new((PM::new(7i32), Poisonable::new(PR::new(Some(key))))),
			route,
			|c| ok(c.into_inner().1),
			|c| ok(c.into_child().1.into_inner()),
		),
	}
	true
}

fn acquire_frame_kind(try_: bool) -> CallKind {
	if try_ {
		CallKind::AcquireTry
	} else {
		CallKind::AcquireBlocking
	}
}

fn record_acq_order(env: &Env, tid: Tid, t0: usize, target: TargetRef, read: bool) {
	let ev = env.exec.trace_from(t0);
	let order: Vec<Lid> = ev
		.iter()
		.filter(|e| e.tid == tid && e.op.is_blocking() && matches!(e.out, Outcome::Ok | Outcome::OkWaited))
		.map(|e| e.lid)
		.collect();
	env.sh().acq_orders.push((target, read, order));
}

fn check_try_notices(env: &Env, tid: Tid, n0: usize, what: &str) {
	let notices = env.exec.notices();
	for n in &notices[n0.min(notices.len())..] {
		match n {
			Notice::BlockingInTry { tid: t, lid, .. } if *t == tid => env.finding(
				"C04",
				tid,
				format!("try-waits|{what}"),
				format!("{what}: a try_* call issued a blocking acquisition of L{lid} that had to wait"),
			),
			Notice::AcquireWhileHolding { tid: t, held, .. } if *t == tid => {
				let bg = expected_background(env, tid);
				let extra: Vec<(Lid, bool)> = held.iter().filter(|h| !bg.contains(h)).cloned().collect();
				if !extra.is_empty() {
					env.finding(
						"C03",
						tid,
						format!("acquire-while-holding|{what}"),
						format!("{what}: the acquisition starts while the caller still holds {}", fmt_held(&extra)),
					);
				}
			}
			Notice::SelfWait { tid: t, lid, .. } if *t == tid => env.finding(
				"C01",
				tid,
				format!("self-wait|{what}"),
				format!("{what}: the thread waits for L{lid}, which it holds itself"),
			),
			Notice::HoldAndSpin { tid: t, lid, failed, held, .. } if *t == tid => env.finding(
				"C09",
				tid,
				format!("hold-and-spin|{what}"),
				format!("{what}: after the try on L{failed} failed the retrying acquisition went on to L{lid} while still holding {held:?} (it polls instead of letting go)"),
			),
			Notice::HoldAndWait { tid: t, lid, held, .. } if *t == tid => env.finding(
				"C09",
				tid,
				format!("hold-and-wait|{what}"),
				format!("{what}: the retrying acquisition waits for L{lid} while holding {held:?}"),
			),
			_ => {}
		}
	}
}

fn step_acquire(env: &Env, ctx: &mut ThreadCtx, target: TargetRef, read: bool, try_: bool) -> bool {
	let tid = ctx.tid;
	let Some(tg) = target_of(env, target) else { return false };
	if ctx.guard.is_some() || ctx.key.is_none() {
		return false;
	}
	if read && !env.sem.sharable(target) {
		return false;
	}
	let flat = env.sem.target_flat(target);
	let what = format!("{}{}:{}", if try_ { "try_" } else { "" }, if read { "read" } else { "lock" }, kind_name(env, target));
	let key = ctx.key.take().unwrap();
	let before = env.exec.table();
	let n0 = env.exec.notices().len();
	let t0 = env.exec.trace_len();
	let frame = env.exec.begin_call(tid, acquire_frame_kind(try_), &what);
	if env.sem.is_retry_target(target) {
		env.exec.mark_retry_frame(frame);
	}
	let r = catch_unwind(AssertUnwindSafe(|| match (read, try_) {
		(false, false) => Ok(tg.lock(key)),
		(false, true) => tg.try_lock(key),
		(true, false) => Ok(tg.read(key)),
		(true, true) => tg.try_read(key),
	}));
	env.exec.end_call(tid);
	check_try_notices(env, tid, n0, &what);
	env.label(&format!("acquire.{what}"));
	match r {
		Ok(Ok(g)) => {
			if env.opts.faults && !env.exec.lock().fault_fired.is_empty() {
				// a raw operation panicked but the call returned normally
				fault_swallowed(env, tid, &what);
			}
			let held = held_now(env, tid);
			if !held_matches(&held, &flat, read) {
				env.finding(
					"C04",
					tid,
					format!("held-set|{what}"),
					format!(
						"{what} on {target:?} returned a guard but the caller holds {} instead of exactly its leaves {:?} ({})",
						fmt_held(&held),
						flat.leaves(),
						if read { "shared" } else { "exclusive" }
					),
				);
			}
			if try_ && env.opts.quiescent && !model_try_ok(&before, &flat, read) {
				env.finding(
					"C13",
					tid,
					format!("try-ok-but-held|{what}"),
					format!("{what} on {target:?} succeeded although a leaf was held in a conflicting mode"),
				);
			}
			if !try_ {
				record_acq_order(env, tid, t0, target, read);
			}
			let pois_snapshot = env.sh().poison.clone();
			let table_before = if env.opts.quiescent { Some(before.clone()) } else { None };
			let mut h = Held { g, target, read, flat, pois_snapshot, table_before };
			// top-level poison status
			if let Some(b) = h.g.top_poisoned() {
				if let Some(w) = own_wrappers(env, target).first() {
					check_poison_obs(env, tid, w, b, "acquire-result");
				}
				if b {
					env.label("poisoned_acquire");
					if !held_matches(&held, &h.flat, read) {
						env.finding(
							"C10",
							tid,
							format!("poisoned-acquire-not-holding|{what}"),
							format!("{what} returned a poison error whose guard does not hold the lock: held = {}", fmt_held(&held)),
						);
					}
				}
			}
			let _ = &mut h;
			ctx.guard = Some(h);
		}
		Ok(Err(k)) => {
			ctx.key = Some(k);
			if !try_ {
				env.finding("C04", tid, "blocking-returned-err", format!("{what}: a blocking acquisition returned an error"));
			}
			let held = held_now(env, tid);
			if !held.is_empty() {
				env.finding(
					"C04",
					tid,
					format!("partial-hold-after-failed-try|{what}"),
					format!("{what} on {target:?} failed but the caller still holds {}", fmt_held(&held)),
				);
				env.finding(
					"C03",
					tid,
					format!("key-back-while-holding|{what}"),
					format!("{what} handed the key back while the caller holds {}", fmt_held(&held)),
				);
			}
			let after = env.exec.table();
			if env.opts.quiescent {
				if model_try_ok(&before, &flat, read) {
					env.finding(
						"C13",
						tid,
						format!("try-failed-but-free|{what}"),
						format!("{what} on {target:?} failed although every leaf was available"),
					);
				}
				if after != before {
					env.finding(
						"C13",
						tid,
						format!("failed-try-changed-state|{what}"),
						format!("{what} on {target:?} failed and left the hold state changed"),
					);
				}
			}
			// rollback happened?
			let ev = env.exec.trace_from(t0);
			if ev.iter().any(|e| e.tid == tid && e.op.is_release()) {
				env.label("rollback");
			}
			env.label("try_failed");
		}
		Err(p) => {
			// the key went into the call; it is gone (dropped during unwinding)
			match classify_panic(p) {
				PanicKind::Abort => {
					ctx.aborted = true;
				}
				PanicKind::Fault | PanicKind::Killed(_) => {
					after_fault_panic(env, ctx, &what);
				}
				PanicKind::User => {
					env.finding("PANIC", tid, "user-panic-outside-body", "UserPanic escaped from an acquisition without a body");
				}
				PanicKind::Other(m) => {
					env.finding("PANIC", tid, format!("unexpected-panic|{what}|{}", first_words(&m)), m);
				}
			}
		}
	}
	true
}

fn step_guard_ops(env: &Env, ctx: &mut ThreadCtx, ops: &[BodyOp]) -> bool {
	let tid = ctx.tid;
	if ctx.guard.is_none() {
		return false;
	}
	let has_panic = ops.iter().any(|o| matches!(o, BodyOp::Panic));
	if !has_panic {
		let h = ctx.guard.as_mut().unwrap();
		let flat = h.flat.clone();
		let snap = h.pois_snapshot.clone();
		let sec = SectionInfo { target: h.target, read: h.read, flat: &flat, scoped: false, snapshot: Some(&snap) };
		// DebugGuard needs shared access to the guard while Touch needs &mut:
		// run op by op
		for op in ops {
			match op {
				BodyOp::DebugGuard => {
					let g = &h.g;
					non_acquiring(env, tid, "debug guard", || {
						let _ = g.debug_fmt();
					});
				}
				other => {
					let mut adapter = GuardLeaves(&mut *h.g);
					run_body(env, tid, true, &sec, std::slice::from_ref(other), &mut adapter, None);
				}
			}
		}
		return true;
	}
	// the guard is moved into the panicking closure and dropped by the unwinding
	let mut h = ctx.guard.take().unwrap();
	let flat = h.flat.clone();
	let snap = h.pois_snapshot.clone();
	let target = h.target;
	let read = h.read;
	let t0 = env.exec.trace_len();
	let n0g = env.exec.notices().len();
	let expect: Vec<(Lid, bool)> = flat.pos.iter().map(|p| (p.leaf, read)).collect();
	env.exec.begin_call(tid, CallKind::Release, "panic with guard alive");
	let r = catch_unwind(AssertUnwindSafe(move || {
		let sec = SectionInfo { target, read, flat: &flat, scoped: false, snapshot: Some(&snap) };
		for op in ops {
			match op {
				BodyOp::DebugGuard => {
					let _ = h.g.debug_fmt();
				}
				other => {
					let mut adapter = GuardLeaves(&mut *h.g);
					run_body(env, tid, true, &sec, std::slice::from_ref(other), &mut adapter, None);
				}
			}
		}
		drop(h);
	}));
	env.exec.end_call(tid);
	match r {
		Err(p) => match classify_panic(p) {
			PanicKind::User => {
				commit_panic(env, tid);
				// C11: propagated (we caught our own payload), nothing held, key obtainable
				let held = held_now(env, tid);
				if !held.is_empty() {
					env.finding(
						"C11",
						tid,
						format!("leak-after-panic|guard|{}", kind_name(env, target)),
						format!("a panic with a live guard on {target:?} left {} held", fmt_held(&held)),
					);
				}
				check_release_parity(env, tid, t0, &expect, &format!("unwinding guard of {}", kind_name(env, target)), "C11");
				illegal_releases_after_panic(env, tid, n0g, &format!("guard of {}", kind_name(env, target)));
				// the key was inside the guard: it must be obtainable again
				match ThreadKey::get() {
					Some(k) => ctx.key = Some(k),
					None => env.finding(
						"C11",
						tid,
						"key-lost-after-panic|guard",
						"after a panic with a live guard the thread's key is not obtainable",
					),
				}
				env.label("panic_with_guard");
			}
			PanicKind::Abort => ctx.aborted = true,
			PanicKind::Fault | PanicKind::Killed(_) => after_fault_panic(env, ctx, "guard section"),
			PanicKind::Other(m) => env.finding("PANIC", tid, format!("unexpected-panic|guard-ops|{}", first_words(&m)), m),
		},
		Ok(()) => {
			// body had a Panic op but returned: only possible when aborted
		}
	}
	true
}

struct GuardLeaves<'a>(&'a mut dyn DynGuard);
impl Leaves for GuardLeaves<'_> {
	fn visit(&mut self, _pois: &mut Vec<bool>, f: &mut crate::leaves::Visitor<'_>) {
		self.0.visit(f)
	}
}

fn step_release(env: &Env, ctx: &mut ThreadCtx, how: ReleaseHow) -> bool {
	let tid = ctx.tid;
	let Some(h) = ctx.guard.take() else { return false };
	let expect: Vec<(Lid, bool)> = h.flat.pos.iter().map(|p| (p.leaf, h.read)).collect();
	let what = format!("{:?}:{}", how, kind_name(env, h.target));
	let t0 = env.exec.trace_len();
	let target = h.target;
	let table_before = h.table_before.clone();
	match how {
		ReleaseHow::Forget => {
			let mut sh = env.sh();
			for (l, s) in &expect {
				sh.leaked.push((tid, *l, *s));
			}
			drop(sh);
			h.g.forget();
			ctx.key_lost = true;
			env.label("forget_guard");
			return true;
		}
		ReleaseHow::Drop | ReleaseHow::UnlockFn => {
			env.exec.begin_call(tid, CallKind::Release, &what);
			let r = catch_unwind(AssertUnwindSafe(move || match how {
				ReleaseHow::Drop => {
					drop(h);
					None
				}
				_ => Some(h.g.unlock()),
			}));
			env.exec.end_call(tid);
			match r {
				Ok(k) => {
					if env.opts.faults && !env.exec.lock().fault_fired.is_empty() {
						fault_swallowed(env, tid, &what);
						if let Some(k) = k {
							ctx.key = Some(k);
						}
						return true;
					}
					let held = held_now(env, tid);
					if !held.is_empty() {
						env.finding(
							"C05",
							tid,
							format!("still-held-after-release|{what}"),
							format!("{what} of {target:?}: the caller still holds {}", fmt_held(&held)),
						);
						if k.is_some() {
							env.finding(
								"C03",
								tid,
								format!("key-back-while-holding|{what}"),
								format!("{what} returned the key while the caller still holds {}", fmt_held(&held)),
							);
						}
					}
					check_release_parity(env, tid, t0, &expect, &what, "C05");
					if let Some(tb) = &table_before {
						// quiescent: nothing else moved since the acquisition unless a
						// phantom step ran in between; compare only this thread's view
						let now = env.exec.table();
						let mine_now: Vec<bool> = now.iter().map(|(x, s)| *x == Some(tid) || s.contains(&tid)).collect();
						let mine_before: Vec<bool> = tb.iter().map(|(x, s)| *x == Some(tid) || s.contains(&tid)).collect();
						if mine_now != mine_before {
							env.finding(
								"C13",
								tid,
								format!("drop-does-not-restore|{what}"),
								format!("{what} of {target:?}: the caller's holds after dropping the guard differ from before the acquisition"),
							);
						}
					}
					if let Some(k) = k {
						ctx.key = Some(k);
						env.label("key_via_unlock");
					}
					if expect.len() >= 2 {
						env.label("released_multi");
					}
				}
				Err(p) => match classify_panic(p) {
					PanicKind::Abort => ctx.aborted = true,
					PanicKind::Fault | PanicKind::Killed(_) => after_fault_panic(env, ctx, &what),
					PanicKind::User => {}
					PanicKind::Other(m) => env.finding("PANIC", tid, format!("unexpected-panic|{what}|{}", first_words(&m)), m),
				},
			}
		}
	}
	true
}

fn step_scoped(
	env: &Env,
	ctx: &mut ThreadCtx,
	target: TargetRef,
	read: bool,
	try_: bool,
	owned_key: bool,
	body: &[BodyOp],
) -> bool {
	let tid = ctx.tid;
	let Some(tg) = target_of(env, target) else { return false };
	if ctx.guard.is_some() || ctx.key.is_none() {
		return false;
	}
	if read && !env.sem.sharable(target) {
		return false;
	}
	let flat = env.sem.target_flat(target);
	let what = format!(
		"scoped_{}{}:{}:{}",
		if try_ { "try_" } else { "" },
		if read { "read" } else { "lock" },
		if owned_key { "owned" } else { "lent" },
		kind_name(env, target)
	);
	let before = env.exec.table();
	let n0 = env.exec.notices().len();
	let t0 = env.exec.trace_len();
	let invocations = std::cell::Cell::new(0u32);
	let sec = SectionInfo { target, read, flat: &flat, scoped: true, snapshot: None };
	let has_panic = body.iter().any(|o| matches!(o, BodyOp::Panic));
	let mut owned: Option<ThreadKey> = if owned_key { ctx.key.take() } else { None };
	let frame = env.exec.begin_call(tid, acquire_frame_kind(try_), &what);
	if env.sem.is_retry_target(target) {
		env.exec.mark_retry_frame(frame);
	}
	let exec = env.exec.clone();
	let mut body_fn = |leaves: &mut dyn Leaves| {
		invocations.set(invocations.get() + 1);
		// acquisition phase is over: what follows are releases
		exec.set_call_kind(tid, CallKind::Release);
		if !try_ {
			record_acq_order(env, tid, t0, target, read);
		}
		let held = held_now(env, tid);
		if !held_matches(&held, &flat, read) {
			env.finding(
				"C04",
				tid,
				format!("held-set|{what}"),
				format!(
					"the closure of {what} on {target:?} runs while the caller holds {} instead of exactly {:?}",
					fmt_held(&held),
					flat.leaves()
				),
			);
			env.finding(
				"C02",
				tid,
				format!("closure-without-all-locks|{what}"),
				format!("the closure of {what} runs while the caller holds {} instead of exactly {:?}", fmt_held(&held), flat.leaves()),
			);
		}
		if try_ && env.opts.quiescent && !model_try_ok(&before, &flat, read) {
			env.finding(
				"C13",
				tid,
				format!("try-ok-but-held|{what}"),
				format!("{what} on {target:?} succeeded although a leaf was held in a conflicting mode"),
			);
		}
		run_body(env, tid, true, &sec, body, leaves, None);
	};
	let r = catch_unwind(AssertUnwindSafe(|| {
		let karg = match owned.take() {
			Some(k) => KeyArg::Owned(k),
			None => KeyArg::Lent(ctx.key.as_mut().unwrap()),
		};
		tg.scoped(read, try_, karg, &mut body_fn)
	}));
	env.exec.end_call(tid);
	check_try_notices(env, tid, n0, &what);
	env.label(&format!("acquire.{what}"));
	let expect: Vec<(Lid, bool)> = flat.pos.iter().map(|p| (p.leaf, read)).collect();
	match r {
		Ok(res) => {
			if env.opts.faults && !env.exec.lock().fault_fired.is_empty() {
				fault_swallowed(env, tid, &what);
				if let ScopedRes::Refused(Some(k)) = res {
					ctx.key = Some(k);
				}
				return true;
			}
			let held = held_now(env, tid);
			if !held.is_empty() {
				env.finding(
					"C05",
					tid,
					format!("still-held-after-release|{what}"),
					format!("{what} on {target:?} returned but the caller still holds {}", fmt_held(&held)),
				);
				env.finding(
					"C03",
					tid,
					format!("key-back-while-holding|{what}"),
					format!("{what} returned (key usable again) while the caller still holds {}", fmt_held(&held)),
				);
			}
			if has_panic && invocations.get() >= 1 && !env.exec.is_abort() {
				env.finding(
					"C11",
					tid,
					format!("panic-swallowed|{what}"),
					format!("the closure of {what} panicked but the call returned normally"),
				);
			}
			match res {
				ScopedRes::Ran => {
					if invocations.get() != 1 {
						env.finding(
							"C04",
							tid,
							format!("closure-count|{what}"),
							format!("{what} succeeded but invoked the closure {} times", invocations.get()),
						);
					}
					if invocations.get() >= 1 {
						check_release_parity(env, tid, t0, &[], &what, "C05");
					}
				}
				ScopedRes::Refused(k) => {
					if invocations.get() != 0 {
						env.finding(
							"C04",
							tid,
							format!("closure-ran-on-failure|{what}"),
							format!("{what} reported failure but invoked the closure {} times", invocations.get()),
						);
					}
					if !try_ {
						env.finding("C04", tid, "blocking-returned-err", format!("{what}: a blocking scoped call reported failure"));
					}
					if owned_key {
						match k {
							Some(k) => ctx.key = Some(k),
							None => env.finding("C06", tid, "owned-key-not-returned", format!("{what} failed without handing the owned key back")),
						}
					}
					if env.opts.quiescent {
						if model_try_ok(&before, &flat, read) {
							env.finding(
								"C13",
								tid,
								format!("try-failed-but-free|{what}"),
								format!("{what} on {target:?} failed although every leaf was available"),
							);
						}
						if env.exec.table() != before {
							env.finding(
								"C13",
								tid,
								format!("failed-try-changed-state|{what}"),
								format!("{what} on {target:?} failed and left the hold state changed"),
							);
						}
					}
					let ev = env.exec.trace_from(t0);
					if ev.iter().any(|e| e.tid == tid && e.op.is_release()) {
						env.label("rollback");
					}
					env.label("try_failed");
				}
			}
		}
		Err(p) => match classify_panic(p) {
			PanicKind::User => {
				commit_panic(env, tid);
				let held = held_now(env, tid);
				if !held.is_empty() {
					env.finding(
						"C11",
						tid,
						format!("leak-after-panic|scoped|{}", kind_name(env, target)),
						format!("a panic inside the closure of {what} on {target:?} left {} held", fmt_held(&held)),
					);
				}
				check_release_parity(env, tid, t0, &[], &format!("unwinding {what}"), "C11");
				illegal_releases_after_panic(env, tid, n0, &what);
				if owned_key {
					match ThreadKey::get() {
						Some(k) => ctx.key = Some(k),
						None => env.finding(
							"C11",
							tid,
							"key-lost-after-panic|scoped-owned",
							format!("after a panic inside {what} the thread's key is not obtainable"),
						),
					}
				}
				let _ = &expect;
				env.label("panic_in_scoped");
			}
			PanicKind::Abort => ctx.aborted = true,
			PanicKind::Fault | PanicKind::Killed(_) => {
				if owned_key {
					// the owned key was consumed by the call and dropped by the unwinding
				}
				after_fault_panic(env, ctx, &what);
			}
			PanicKind::Other(m) => env.finding("PANIC", tid, format!("unexpected-panic|{what}|{}", first_words(&m)), m),
		},
	}
	let _ = has_panic;
	true
}

fn step_temp_coll(env: &Env, ctx: &mut ThreadCtx, kind: KindTag, members: &[MemberSpec], then: TempThen) -> bool {
	use happylock::collection::{BoxedLockCollection as Boxed, RefLockCollection as RefC, RetryingLockCollection as Retry};
	let tid = ctx.tid;
	// validate member references against the world
	for m in members {
		let ok = match m {
			MemberSpec::Leaf(i) => *i < env.world.leaves.len(),
			MemberSpec::Wrap(i) => *i < env.world.leaves.len() && env.sem.spec.leaves[*i].wraps == 0,
			MemberSpec::EmptyOwnedAt(i) => *i < env.world.leaves.len(),
			MemberSpec::Coll(j) => *j < env.world.colls.len() && env.world.colls[*j].nest.is_some(),
			MemberSpec::Inner(j, k) => {
				*j < env.world.colls.len()
					&& (env.world.colls[*j].own.get(*k).copied().flatten().is_some()
						|| env.world.colls[*j].nest.as_ref().and_then(|n| n.inner()).map(|s| *k < s.len()).unwrap_or(false))
			}
			// a temporary collection is built without a key: no fresh locks
			MemberSpec::Own(_) => false,
		};
		if !ok {
			return false;
		}
	}
	let label = format!("ctor {kind:?}");
	// 0 = not built, 1 = refused, 2 = accepted
	let verdict = std::cell::Cell::new(0u8);
	let verdict_ref = &verdict;
	non_acquiring(env, tid, &label, || {
		let v = match crate::world::build_members_pub(members, &env.world) {
			Some(v) => v,
			None => return,
		};
		verdict_ref.set(1);
		match kind {
			KindTag::Boxed => {
				if let Some(c) = Boxed::try_new(v) {
					verdict_ref.set(2);
					match then {
						TempThen::Drop => drop(c),
						TempThen::IntoChild => drop(c.into_child()),
						TempThen::IntoIter => c.into_iter().for_each(drop),
						TempThen::Inspect | TempThen::Borrow => {
							let n = (&c).into_iter().count() + c.iter().count();
							let _ = (n, c.child().len(), format!("{c:?}"));
							let _: &Vec<crate::types::Mem> = c.as_ref();
							drop(c)
						}
					}
				}
			}
			KindTag::Retry => {
				if let Some(c) = Retry::try_new(v) {
					verdict_ref.set(2);
					match then {
						TempThen::Drop => drop(c),
						TempThen::IntoChild => drop(c.into_child()),
						TempThen::IntoIter => c.into_iter().for_each(drop),
						TempThen::Inspect | TempThen::Borrow => {
							let n = (&c).into_iter().count() + c.iter().count();
							let _ = (n, c.child().len(), format!("{c:?}"));
							let _: &Vec<crate::types::Mem> = c.as_ref();
							drop(c)
						}
					}
				}
			}
			KindTag::Ref => {
				if let Some(c) = RefC::try_new(&v) {
					verdict_ref.set(2);
					match then {
						TempThen::Drop | TempThen::IntoChild => drop(c),
						TempThen::IntoIter => c.into_iter().for_each(|_| ()),
						TempThen::Inspect | TempThen::Borrow => {
							let n = (&c).into_iter().count() + c.iter().count();
							let _ = (n, c.child().len(), format!("{c:?}"));
							drop(c)
						}
					}
				}
			}
			KindTag::Owned => {}
		}
	});
	// C07 at any moment of a history (members may be poisoned, killed, held):
	// accepted iff the reference model sees no lock twice
	if verdict.get() != 0 && kind != KindTag::Owned && !env.exec.is_abort() {
		let mut trial = env.sem.spec.clone();
		trial.colls.push(CollSpec { kind, ctor: Ctor::TryNew, cont: Cont::Vec, content: Content::ByRef(members.to_vec()), pois: false });
		if Sem::valid(&trial).is_ok() {
			let dup = Sem::new(&trial).has_duplicate(trial.colls.len() - 1);
			if dup {
				env.label("temp_ctor_dup");
			}
			match (verdict.get(), dup) {
				(2, true) => env.finding("C07", tid, format!("false-negative|in-history|{kind:?}"), format!("{kind:?}::try_new accepted the member list {members:?} in the middle of a history although a lock is reachable twice")),
				(1, false) => env.finding("C07", tid, format!("false-positive|in-history|{kind:?}"), format!("{kind:?}::try_new refused the duplicate-free member list {members:?} in the middle of a history")),
				_ => {}
			}
		}
	}
	true
}

// ---------------------------------------------------------------------------
// fault handling (C12) -- filled in by the fault engine

fn fault_swallowed(env: &Env, _tid: Tid, _what: &str) {
	// the C12 oracle reports it with the call site: outcome "ok" although a fault fired
	env.sh().last_outcome = "returned-normally".into();
}

fn step_probe_faulted(env: &Env, ctx: &mut ThreadCtx, fallback: TargetRef) -> bool {
	let tid = ctx.tid;
	if ctx.guard.is_some() {
		return false;
	}
	let mut lids: Vec<Lid> = env.exec.lock().fault_fired.iter().map(|(_, l, _, _)| *l).collect();
	lids.sort();
	lids.dedup();
	if lids.is_empty() {
		return false;
	}
	// "kills only that lock": `{:?}` shows `<locked>` for a lock it cannot
	// try-lock - held, or killed.  More `<locked>` members than locks that are
	// held or had an operation of their own panic = a lock was killed whose
	// operations never panicked (collections that print their members only)
	if !env.exec.is_abort() {
		if let Some(tg) = target_of(env, fallback) {
			let mut shown = String::new();
			non_acquiring(env, tid, "debug after fault", || {
				shown = tg.debug_fmt();
			});
			let n_locked = shown.matches("<locked>").count();
			let table = env.exec.table();
			let flat = env.sem.target_flat(fallback);
			let explained = flat
				.pos
				.iter()
				.filter(|p| {
					let (excl, shared) = table.get(p.leaf as usize).cloned().unwrap_or((None, vec![]));
					lids.contains(&p.leaf) || excl.is_some() || (p.ty == LeafTy::M && !shared.is_empty())
				})
				.count();
			if n_locked > explained {
				env.finding(
					"C12",
					tid,
					format!("killed-without-a-fault-of-its-own|{}", kind_name(env, fallback)),
					format!(
						"after the raw-operation panic on {:?}, `{{:?}}` of {fallback:?} shows {n_locked} members as <locked> but only {explained} of its locks are held or had an operation panic: a lock was made unusable although none of its operations panicked ({shown})",
						lids
					),
				);
			}
		}
	}
	let nstandalone = env.world.leaves.len();
	let mut targets: Vec<(TargetRef, Lid)> = Vec::new();
	for l in lids.clone() {
		let t = if (l as usize) < nstandalone { TargetRef::Leaf(l as usize) } else { fallback };
		if !targets.iter().any(|(x, _)| *x == t) {
			targets.push((t, l));
		}
	}
	for (t, lid) in targets {
		let Some(tg) = target_of(env, t) else { continue };
		let sharable = env.sem.sharable(t);
		let modes: &[(bool, bool)] = if sharable { &[(false, false), (false, true), (true, false), (true, true)] } else { &[(false, false), (false, true)] };
		for (read, blocking) in modes.iter().copied() {
			if env.exec.is_abort() {
				return true;
			}
			if ctx.key.is_none() {
				ctx.key = ThreadKey::get();
			}
			let Some(key) = ctx.key.take() else { return true };
			let api = match (read, blocking) {
				(false, true) => "lock",
				(false, false) => "try_lock",
				(true, true) => "read",
				(true, false) => "try_read",
			};
			let what = format!("probe:{api}:{}", kind_name(env, t));
			env.exec.begin_call(tid, if blocking { CallKind::AcquireBlocking } else { CallKind::AcquireTry }, &what);
			let r = catch_unwind(AssertUnwindSafe(|| match (read, blocking) {
				(false, true) => Ok(tg.lock(key)),
				(false, false) => tg.try_lock(key),
				(true, true) => Ok(tg.read(key)),
				(true, false) => tg.try_read(key),
			}));
			env.exec.end_call(tid);
			match r {
				Ok(Ok(g)) => {
					env.finding(
						"C12",
						tid,
						format!("not-killed|{}|{}", if blocking { "blocking-acquired" } else { "try-succeeded" }, kind_name(env, t)),
						format!("L{lid} had a raw operation panic, yet a later {what} acquired it"),
					);
					drop(g);
				}
				Ok(Err(k)) => ctx.key = Some(k),
				Err(p) => match classify_panic(p) {
					PanicKind::Killed(_) | PanicKind::Fault => {}
					PanicKind::Abort => {
						// which lock did the call wait for?  Only a wait for the
						// faulted lock itself shows that it was not killed; a wait
						// for another (leaked) member says nothing about it.
						let waited_on: Option<Lid> = env.exec.notices().iter().rev().find_map(|n| match n {
							Notice::WouldWait { lid, .. } | Notice::SelfWait { lid, .. } => Some(*lid),
							_ => None,
						});
						if waited_on == Some(lid) {
							env.finding(
								"C12",
								tid,
								format!("not-killed|blocking-waited|{}", kind_name(env, t)),
								format!("L{lid} had a raw operation panic, yet a later {what} went on to wait for that raw lock instead of refusing"),
							);
						} else {
							env.label("probe_blocked_on_other_lock");
						}
						ctx.aborted = true;
						return true;
					}
					PanicKind::User => {}
					PanicKind::Other(m) => env.finding("PANIC", tid, format!("unexpected-panic|{what}|{}", first_words(&m)), m),
				},
			}
		}
	}
	if ctx.key.is_none() {
		ctx.key = ThreadKey::get();
	}
	env.label("probed_faulted_lock");
	true
}

fn after_fault_panic(env: &Env, ctx: &mut ThreadCtx, what: &str) {
	// a raw operation panicked (or a killed lock refused): the case driver
	// evaluates the C12 clauses from the trace; here we only restore the
	// thread's key so the history can continue
	let _ = what;
	env.sh().last_outcome = "panicked".into();
	if !env.opts.faults {
		if env.sh().killed.is_empty() {
			env.finding("PANIC", ctx.tid, format!("raw-panic-without-fault-plan|{what}"), "a raw-operation panic surfaced although no fault was planned");
		} else {
			// a killed lock refused a blocking acquisition: the unwinding hands the
			// key back, so nothing the call took may still be held
			env.label("killed_lock_refused");
			let own: Vec<(Lid, bool)> = held_now(env, ctx.tid).into_iter().filter(|(l, s)| !env.sh().leaked.iter().any(|(t, ll, ss)| *t == ctx.tid && ll == l && ss == s)).collect();
			if !own.is_empty() && ctx.guard.is_none() {
				env.finding(
					"C03",
					ctx.tid,
					format!("key-back-while-holding|refused-by-killed-lock|{what}"),
					format!("{what} was refused by a killed lock (panic) and the thread got its key back while it holds {}", fmt_held(&own)),
				);
				env.finding(
					"C05",
					ctx.tid,
					format!("still-held-after-refusal|{what}"),
					format!("{what} was refused by a killed lock (panic) but left {} held", fmt_held(&own)),
				);
				env.finding(
					"C11",
					ctx.tid,
					format!("leak-after-panic|killed-refusal|{what}"),
					format!("{what} panicked (killed lock) and left {} held", fmt_held(&own)),
				);
			}
		}
	}
	if ctx.key.is_none() && ctx.guard.is_none() && !ctx.key_lost {
		if let Some(k) = ThreadKey::get() {
			ctx.key = Some(k);
		}
	}
	env.label("fault_panic_reached_caller");
}
