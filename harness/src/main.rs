use hlverif::props;

#[global_allocator]
static ALLOC: hlverif::quarantine::QuarantineAlloc = hlverif::quarantine::QuarantineAlloc;
use hlverif::runner::Tier;

fn usage() -> ! {
	eprintln!("usage: hlv check <ID> [--tier quick|thorough] [--seed N]\n       hlv replay <file>");
	std::process::exit(2)
}

fn main() {
	let args: Vec<String> = std::env::args().collect();
	let code = match args.get(1).map(|s| s.as_str()) {
		Some("check") => {
			let Some(id) = args.get(2) else { usage() };
			let mut tier = match std::env::var("VERIF_TIER").ok().as_deref() {
				Some("thorough") => Tier::Thorough,
				_ => Tier::Quick,
			};
			let mut seed: u64 = std::env::var("VERIF_SEED").ok().and_then(|s| s.parse().ok()).unwrap_or(1);
			let mut i = 3;
			while i < args.len() {
				match args[i].as_str() {
					"--tier" => {
						i += 1;
						tier = match args.get(i).map(|s| s.as_str()) {
							Some("thorough") => Tier::Thorough,
							Some("quick") => Tier::Quick,
							_ => usage(),
						};
					}
					"--seed" => {
						i += 1;
						seed = args.get(i).and_then(|s| s.parse().ok()).unwrap_or_else(|| usage());
					}
					_ => usage(),
				}
				i += 1;
			}
			props::run_check(id, tier, seed)
		}
		Some("replay") => {
			let Some(f) = args.get(2) else { usage() };
			props::replay(f)
		}
		_ => usage(),
	};
	std::process::exit(code);
}
