fn main() { hlverif::hello(); }
