use hlverif::props;

#[global_allocator]
static ALLOC: hlverif::quarantine::QuarantineAlloc = hlverif::quarantine::QuarantineAlloc;
use hlverif::runner::Tier;

fn usage() -> ! {
	eprintln!("usage: hlv check <ID> [--tier quick|thorough] [--seed N]\n       hlv replay <file>");
	std::process::exit(2)
}

fn main() {
	let args: Vec<String> = std::env::args().collect();
	let code = match args.get(1).map(|s| s.as_str()) {
		Some("check") => {
			let Some(id) = args.get(2) else { usage() };
			let mut tier = match std::env::var("VERIF_TIER").ok().as_deref() {
				Some("thorough") => Tier::Thorough,
				_ => Tier::Quick,
			};
			let mut seed: u64 = std::env::var("VERIF_SEED").ok().and_then(|s| s.parse().ok()).unwrap_or(1);
			let mut i = 3;
			while i < args.len() {
				match args[i].as_str() {
					"--tier" => {
						i += 1;
						tier = match args.get(i).map(|s| s.as_str()) {
							Some("thorough") => Tier::Thorough,
							Some("quick") => Tier::Quick,
							_ => usage(),
						};
					}
					"--seed" => {
						i += 1;
						seed = args.get(i).and_then(|s| s.parse().ok()).unwrap_or_else(|| usage());
					}
					_ => usage(),
				}
				i += 1;
			}
			// whole-check watchdog: a check that hangs (a change of the library that
			// makes the process spin, say) gives no verdict instead of never returning
			let limit: u64 = std::env::var("HLV_WATCHDOG_S").ok().and_then(|s| s.parse().ok()).unwrap_or(match tier {
				Tier::Quick => 20 * 60,
				Tier::Thorough => 120 * 60,
			});
			let idc = id.clone();
			std::thread::spawn(move || {
				std::thread::sleep(std::time::Duration::from_secs(limit));
				println!("INCONCLUSIVE: check {idc} did not finish within {limit} s (watchdog): no verdict");
				std::process::exit(2);
			});
			props::run_check(id, tier, seed)
		}
		Some("dump-types-replay") => {
			// hlv dump-types-replay <PROP> <family> <name> <out.json>: write the replay file of one TYPES pair
			let (Some(prop), Some(fam), Some(name), Some(out)) = (args.get(2), args.get(3), args.get(4), args.get(5)) else { usage() };
			let mut pairs = props::types_pairs(prop);
			if prop == "C01" {
				pairs = hlverif::tyeng::families_mutation_after_check();
			}
			match pairs.into_iter().find(|p| &p.family == fam && &p.name == name) {
				Some(p) => {
					let doc = serde_json::json!({"property": prop, "signature": format!("accepted|{}|{}", p.family, p.name), "detail": "regression replay of a TYPES pair", "case": {"engine": "types", "pair": p}});
					std::fs::write(out, serde_json::to_string_pretty(&doc).unwrap()).expect("write");
					0
				}
				None => {
					eprintln!("no such pair");
					2
				}
			}
		}
		Some("replay") => {
			let Some(f) = args.get(2) else { usage() };
			props::replay(f)
		}
		_ => usage(),
	};
	std::process::exit(code);
}
