//! Per-property checks: generator configuration, evaluator (which findings
//! count, what is non-trivial), campaign sizes, and the replay entry point.

use serde_json::{json, Value};

use crate::case::*;
use crate::engine::*;
use crate::gen::*;
use crate::interp::{Finding, Opts};
use crate::runner::*;
use crate::world::*;

pub const ALL: &[&str] = &[
	"C01", "C02", "C03", "C04", "C05", "C06", "C07", "C08", "C09", "C10", "C11", "C12", "C13", "C14", "C15", "C16", "C17",
];

fn opts_json(o: &Opts) -> Value {
	json!({"quiescent": o.quiescent, "faults": o.faults, "conc": o.conc})
}

fn opts_from(v: &Value) -> Opts {
	Opts {
		quiescent: v["quiescent"].as_bool().unwrap_or(false),
		faults: v["faults"].as_bool().unwrap_or(false),
		conc: v["conc"].as_bool().unwrap_or(false),
	}
}

pub fn describe_world(w: &WorldSpec) -> Vec<String> {
	let mut v = Vec::new();
	for (i, l) in w.leaves.iter().enumerate() {
		v.push(format!("L{i}: {}{:?}", "Poisonable ".repeat(l.wraps as usize), l.ty));
	}
	for (i, c) in w.colls.iter().enumerate() {
		let content = match &c.content {
			Content::ByRef(m) => format!("{m:?}"),
			Content::ByVal(m) => format!("by-value {m:?}"),
		};
		v.push(format!("C{i}: {}{:?}::{:?}({:?} of {})", if c.pois { "Poisonable " } else { "" }, c.kind, c.ctor, c.cont, content));
	}
	v
}

fn sample_seq(case: &SeqCase, r: &RunResult) -> Value {
	json!({
		"engine": "seq",
		"world": describe_world(&case.world),
		"threads": case.nthreads,
		"steps": case.steps.iter().map(|(t, s)| format!("t{t}: {s:?}")).collect::<Vec<_>>(),
		"fault": case.fault,
		"trace": r.trace.iter().take(60).collect::<Vec<_>>(),
		"executed_steps": r.executed_steps,
		"skipped_steps": r.skipped_steps,
	})
}

fn sample_conc(case: &ConcCase, r: &RunResult) -> Value {
	json!({
		"engine": "conc",
		"world": describe_world(&case.world),
		"writer_preferring": case.writer_pref,
		"programs": case.programs.iter().enumerate().map(|(t, p)| format!("t{t}: {p:?}")).collect::<Vec<_>>(),
		"schedule_choices(idx,enabled)": r.taken.iter().filter(|(_, n)| *n > 1).take(40).collect::<Vec<_>>(),
		"trace": r.trace.iter().take(80).collect::<Vec<_>>(),
		"switches": r.switches,
	})
}

fn mine(prop: &str, r: &RunResult) -> Vec<Finding> {
	r.findings.iter().filter(|f| f.prop == prop || f.prop == "PANIC").cloned().collect()
}

fn has(r: &RunResult, label_prefix: &str) -> bool {
	r.labels.keys().any(|k| k.starts_with(label_prefix))
}

/// labels attached to a case for the evidence distribution: the run's own
/// labels (once per case) plus shape classes
fn case_labels(world: &WorldSpec, r: &RunResult) -> Vec<String> {
	let mut v: Vec<String> = r.labels.keys().map(|k| {
		// acquisition labels carry the shape: keep api + kind, drop container detail noise
		k.clone()
	}).collect();
	for c in &world.colls {
		v.push(format!("world.kind.{:?}", c.kind));
		v.push(format!("world.cont.{:?}", c.cont));
		match &c.content {
			Content::ByRef(m) => {
				if m.iter().any(|x| matches!(x, MemberSpec::Coll(_) | MemberSpec::Inner(..))) {
					v.push("world.nested".into());
				}
				if m.iter().any(|x| matches!(x, MemberSpec::Wrap(_))) {
					v.push("world.inline_wrap".into());
				}
			}
			Content::ByVal(m) => {
				v.push("world.byval".into());
				if m.iter().any(|x| matches!(x, OMemberSpec::Coll(_))) {
					v.push("world.nested".into());
				}
			}
		}
		if c.pois {
			v.push("world.pois_coll".into());
		}
	}
	v.sort();
	v.dedup();
	v
}

pub struct SeqEval<'a> {
	pub prop: &'a str,
	pub opts: Opts,
	pub nontrivial: &'a (dyn Fn(&SeqCase, &RunResult) -> bool + Sync),
	pub extra: Option<&'a (dyn Fn(&SeqCase, &RunResult) -> Vec<Finding> + Sync)>,
}

pub fn eval_seq_case(e: &SeqEval<'_>, case: &SeqCase, want_sample: bool) -> CaseReport {
	let r = run_seq(case, e.opts);
	report_seq(e, case, &r, want_sample)
}

pub fn report_seq(e: &SeqEval<'_>, case: &SeqCase, r: &RunResult, want_sample: bool) -> CaseReport {
	if r.invalid.is_some() {
		return CaseReport { invalid: true, ..Default::default() };
	}
	let mut violations = mine(e.prop, r);
	if let Some(x) = e.extra {
		violations.extend(x(case, r));
	}
	let nontrivial = (e.nontrivial)(case, r);
	let replay = if violations.is_empty() {
		None
	} else {
		Some(json!({"engine": "seq", "opts": opts_json(&e.opts), "case": case, "trace": r.trace, "world": describe_world(&case.world)}))
	};
	CaseReport {
		violations,
		nontrivial,
		fp: fp_str(&format!("{case:?}")),
		labels: case_labels(&case.world, r),
		inconclusive: r.inconclusive.clone(),
		invalid: false,
		sample: if want_sample && nontrivial { Some(sample_seq(case, r)) } else { None },
		replay,
	}
}

pub struct ConcEval<'a> {
	pub prop: &'a str,
	pub nontrivial: &'a (dyn Fn(&ConcCase, &RunResult) -> bool + Sync),
	pub extra: Option<&'a (dyn Fn(&ConcCase, &RunResult) -> Vec<Finding> + Sync)>,
}

pub fn eval_conc_case(e: &ConcEval<'_>, case: &ConcCase, want_sample: bool) -> CaseReport {
	let opts = Opts { conc: true, ..Default::default() };
	let r = run_conc(case, opts);
	if r.invalid.is_some() {
		return CaseReport { invalid: true, ..Default::default() };
	}
	let mut violations = mine(e.prop, &r);
	if let Some(x) = e.extra {
		violations.extend(x(case, &r));
	}
	let nontrivial = (e.nontrivial)(case, &r);
	let replay = if violations.is_empty() {
		None
	} else {
		// store the exact choices taken so that the replay does not depend on the decoder
		let forced: Vec<u8> = r.taken.iter().filter(|(_, n)| *n > 1).map(|(i, _)| *i).collect();
		let mut c = case.clone();
		c.forced = Some(forced);
		Some(json!({"engine": "conc", "opts": opts_json(&opts), "case": c, "trace": r.trace, "world": describe_world(&case.world)}))
	};
	let mut labels = case_labels(&case.world, &r);
	if r.waited {
		labels.push("conc.waited".into());
	}
	if r.switches > 0 {
		labels.push("conc.switched".into());
	}
	labels.push(format!("conc.threads.{}", case.programs.len()));
	labels.push(if case.writer_pref { "conc.writer_pref".into() } else { "conc.reader_pref".into() });
	CaseReport {
		violations,
		nontrivial,
		fp: fp_str(&format!("{:?}{:?}{:?}", case.world, case.programs, r.taken)),
		labels,
		inconclusive: r.inconclusive.clone(),
		invalid: false,
		sample: if want_sample && nontrivial { Some(sample_conc(case, &r)) } else { None },
		replay,
	}
}

// ---------------------------------------------------------------------------
// generator configurations

fn base_world() -> WorldCfg {
	WorldCfg::default()
}

pub fn seq_cfg_general() -> SeqCfg {
	SeqCfg { world: base_world(), w: StepW::default(), max_steps: 14, max_threads: 2 }
}

fn count_steps(case: &SeqCase, f: impl Fn(&Step) -> bool) -> usize {
	case.steps.iter().filter(|(_, s)| f(s)).count()
}

fn any_nested_or_big(case: &SeqCase) -> bool {
	let sem = Sem::new(&case.world);
	case.steps.iter().any(|(_, s)| {
		let t = match s {
			Step::Acquire { target, .. } | Step::Scoped { target, .. } => Some(*target),
			_ => None,
		};
		match t {
			Some(TargetRef::Coll(c)) if c < case.world.colls.len() => {
				let nested = match &case.world.colls[c].content {
					Content::ByRef(m) => m.iter().any(|x| matches!(x, MemberSpec::Coll(_) | MemberSpec::Inner(..))),
					Content::ByVal(m) => m.iter().any(|x| matches!(x, OMemberSpec::Coll(_))),
				};
				let leaves = sem.flats[c].leaves();
				let mut sorted = leaves.clone();
				sorted.sort();
				nested || (leaves.len() >= 3 && leaves != sorted)
			}
			_ => false,
		}
	})
}

// ---------------------------------------------------------------------------
// the checks

pub fn run_check(prop: &str, tier: Tier, seed: u64) -> i32 {
	match prop {
		"C03" => c03(tier, seed),
		"C04" => c04(tier, seed),
		"C05" => c05(tier, seed),
		"C06" => c06(tier, seed),
		"C13" => c13(tier, seed),
		"C17" => c17(tier, seed),
		_ => {
			eprintln!("unknown or unbuilt property {prop}");
			2
		}
	}
}

fn c06(tier: Tier, seed: u64) -> i32 {
	let mut ctx = CheckCtx::new("C06", "exploration", tier, seed);
	ctx.rule = "SEQ histories decoded from proptest byte vectors (16 runners, seeds f(VERIF_SEED, worker)) over the key-affecting vocabulary (get/drop/forget key, lock/try_lock/read/try_read incl. failures, unlock fns, guard drop/forget, scoped_* with lent and owned key, panicking closures and guards, poisoned results) on 1-2 threads; after every step and inside every closure ThreadKey::get() is compared with the reference model 'key alive'. Non-trivial = the history moved a key through a carrier (guard, failed try, owned-key scoped call, unwinding) and performed a later GetKey; distinct = hash of the decoded case.".into();
	let mut cfg = seq_cfg_general();
	cfg.max_steps = 16;
	cfg.w.get_key = 10;
	cfg.w.drop_key = 3;
	cfg.w.forget_key = 1;
	cfg.w.p_forget_guard = 20;
	cfg.w.p_panic = 50;
	cfg.w.p_probe_in_body = 150;
	cfg.w.p_owned_key = 128;
	cfg.world.max_colls = 3;
	let opts = Opts::default();
	let nontrivial = |case: &SeqCase, r: &RunResult| {
		let carrier = has(r, "acquire.") || has(r, "panic_") || has(r, "forget_");
		let mut seen_acq = false;
		let mut later_get = false;
		for (_, s) in &case.steps {
			match s {
				Step::Acquire { .. } | Step::Scoped { .. } => seen_acq = true,
				Step::GetKey if seen_acq => later_get = true,
				_ => {}
			}
		}
		carrier && later_get && r.executed_steps >= 3
	};
	let e = SeqEval { prop: "C06", opts, nontrivial: &nontrivial, extra: None };
	let n = tier.pick(50_000, 3_000_000);
	ctx.search("seq-key-histories", n, 220, |bytes, want| {
		let case = gen_seq(&mut Src::new(bytes), &cfg);
		eval_seq_case(&e, &case, want)
	});
	ctx.require_label("panic_in_scoped", 50);
	ctx.require_label("forget_", 50);
	ctx.require_label("try_failed", 50);
	ctx.finish()
}

fn c13(tier: Tier, seed: u64) -> i32 {
	let mut ctx = CheckCtx::new("C13", "exploration", tier, seed);
	ctx.rule = "SEQ: a world (all collection kinds / containers / nestings), a pattern of phantom holders (free / read-held / write-held per leaf), then try_lock / try_read / scoped_try_* on every target; Ok must hold iff the reference table allows it, a failed attempt must leave the owner table unchanged, a successful one must be undone by dropping the guard. Non-trivial = at least one leaf held by a phantom and a target with >= 2 leaves; distinct = hash of the decoded case.".into();
	let mut cfg = seq_cfg_general();
	cfg.max_threads = 1;
	cfg.max_steps = 14;
	cfg.w = StepW {
		get_key: 8,
		acquire: 10,
		scoped: 8,
		guard_ops: 2,
		release: 12,
		phantom_hold: 9,
		phantom_release: 3,
		p_try: 235,
		p_read: 120,
		..StepW::default()
	};
	let opts = Opts { quiescent: true, ..Default::default() };
	let nontrivial = |case: &SeqCase, r: &RunResult| {
		let held = count_steps(case, |s| matches!(s, Step::PhantomHold { .. })) > 0;
		let sem = Sem::new(&case.world);
		let multi = case.steps.iter().any(|(_, s)| match s {
			Step::Acquire { target: TargetRef::Coll(c), try_: true, .. } | Step::Scoped { target: TargetRef::Coll(c), try_: true, .. } => {
				*c < sem.flats.len() && sem.flats[*c].pos.len() >= 2
			}
			_ => false,
		});
		held && multi && (has(r, "try_failed") || has(r, "acquire.try") || has(r, "acquire.scoped_try"))
	};
	let e = SeqEval { prop: "C13", opts, nontrivial: &nontrivial, extra: None };
	let n = tier.pick(40_000, 2_000_000);
	ctx.search("seq-quiescent-try", n, 200, |bytes, want| {
		let case = gen_seq(&mut Src::new(bytes), &cfg);
		eval_seq_case(&e, &case, want)
	});
	ctx.require_label("try_failed", 200);
	ctx.require_label("rollback", 100);
	ctx.finish()
}

fn c04(tier: Tier, seed: u64) -> i32 {
	let mut ctx = CheckCtx::new("C04", "exploration", tier, seed);
	ctx.rule = "SEQ: collection specs (kind x ctor x container x nesting <= 2 x sizes 0..5 x arrangement) x mode x API flavour x pre-held pattern (phantom read/write holders and holds of a second thread); after every acquisition the caller's held multiset must equal the leaf multiset of the spec (Ok) or be empty with the key back (Err), no try_* may wait, scoped closures run once iff success. Non-trivial = a try_* failed after taking >= 1 member (rollback), or the target nests collections, or it has >= 3 leaves declared in non-sorted order; distinct = hash of the decoded case.".into();
	let mut cfg = seq_cfg_general();
	cfg.w.phantom_hold = 5;
	cfg.w.p_try = 150;
	let opts = Opts { quiescent: false, ..Default::default() };
	let nontrivial = |case: &SeqCase, r: &RunResult| (has(r, "rollback") || any_nested_or_big(case)) && has(r, "acquire.");
	let e = SeqEval { prop: "C04", opts, nontrivial: &nontrivial, extra: None };
	let n = tier.pick(40_000, 2_000_000);
	ctx.search("seq-all-or-nothing", n, 220, |bytes, want| {
		let case = gen_seq(&mut Src::new(bytes), &cfg);
		eval_seq_case(&e, &case, want)
	});
	ctx.require_label("rollback", 100);
	ctx.require_label("world.nested", 500);
	ctx.finish()
}

fn c03(tier: Tier, seed: u64) -> i32 {
	let mut ctx = CheckCtx::new("C03", "exploration", tier, seed);
	ctx.rule = "SEQ histories over the full acquire/release vocabulary (every API flavour of single locks, the four collection kinds, Poisonable; failed try via phantom holders; poisoned Err carrying a guard; panicking closures; lent and owned keys); oracle: at the first raw operation of every acquiring call the caller holds nothing, and whenever a key comes back (Err(key), unlock fn, scoped call returned) the caller holds nothing. Non-trivial = >= 2 acquisitions with a key hand-back in between through a failed try, an unlock fn, or an unwound call; distinct = hash of the decoded case.".into();
	let mut cfg = seq_cfg_general();
	cfg.w.p_panic = 40;
	cfg.w.phantom_hold = 4;
	cfg.w.p_unlock_fn = 150;
	let opts = Opts::default();
	let nontrivial = |_case: &SeqCase, r: &RunResult| {
		let acq: u64 = r.labels.iter().filter(|(k, _)| k.starts_with("acquire.")).map(|(_, v)| *v).sum();
		acq >= 2 && (has(r, "try_failed") || has(r, "key_via_unlock") || has(r, "panic_in_scoped") || has(r, "panic_with_guard"))
	};
	let e = SeqEval { prop: "C03", opts, nontrivial: &nontrivial, extra: None };
	let n = tier.pick(40_000, 2_000_000);
	ctx.search("seq-total-allocation", n, 220, |bytes, want| {
		let case = gen_seq(&mut Src::new(bytes), &cfg);
		eval_seq_case(&e, &case, want)
	});
	ctx.require_label("key_via_unlock", 200);
	ctx.require_label("try_failed", 100);
	ctx.finish()
}

fn c05(tier: Tier, seed: u64) -> i32 {
	let mut ctx = CheckCtx::new("C05", "exploration", tier, seed);
	ctx.rule = "SEQ histories (as C03/C04) with the release audit of the verification raw locks: every raw unlock must be issued by a thread that holds the lock in that mode; per call, releases == holds (multiset); after all guards are dropped every lock is free except holds leaked on purpose. Non-trivial = a collection of >= 2 leaves was acquired and released, or a rollback happened; distinct = hash of the decoded case.".into();
	let mut cfg = seq_cfg_general();
	cfg.w.phantom_hold = 4;
	cfg.w.p_panic = 30;
	cfg.w.p_forget_guard = 10;
	let opts = Opts::default();
	let nontrivial = |_case: &SeqCase, r: &RunResult| has(r, "released_multi") || has(r, "rollback");
	let e = SeqEval { prop: "C05", opts, nontrivial: &nontrivial, extra: None };
	let n = tier.pick(40_000, 2_000_000);
	ctx.search("seq-release-audit", n, 220, |bytes, want| {
		let case = gen_seq(&mut Src::new(bytes), &cfg);
		eval_seq_case(&e, &case, want)
	});
	ctx.require_label("released_multi", 500);
	ctx.require_label("rollback", 100);
	ctx.finish()
}

fn c17(tier: Tier, seed: u64) -> i32 {
	let mut ctx = CheckCtx::new("C17", "exploration", tier, seed);
	ctx.rule = "SEQ: non-acquiring operations ({:?} of locks / collections / guards, is_poisoned, clear_poison, child/iter accessors, checked constructors + into_child on temporary collections) executed while leaves are free / read-held / write-held by phantoms, by another thread's live guard, by the calling thread's own guard or from inside its own running scoped closure; oracle: no blocking raw operation had to wait (incl. self-wait) and the owner table after == before. Non-trivial = >= 1 leaf was held by anyone during the operation; distinct = hash of the decoded case.".into();
	let mut cfg = seq_cfg_general();
	cfg.max_steps = 16;
	cfg.w = StepW {
		phantom_hold: 6,
		is_poisoned: 4,
		clear_poison: 2,
		debug: 12,
		accessors: 4,
		temp_coll: 6,
		p_debug_in_body: 200,
		release: 5,
		..StepW::default()
	};
	let opts = Opts { quiescent: true, ..Default::default() };
	let nontrivial = |case: &SeqCase, r: &RunResult| {
		// some hold existed while a non-acquiring op ran: approximated per case by
		// "a hold step precedes a non-acquiring step" or a Debug inside a section
		let mut holding = false;
		let mut hit = false;
		for (_, s) in &case.steps {
			match s {
				Step::PhantomHold { .. } | Step::Acquire { .. } => holding = true,
				Step::Debug { .. } | Step::Accessors { .. } | Step::TempColl { .. } | Step::IsPoisoned { .. } | Step::ClearPoison { .. } => {
					if holding {
						hit = true
					}
				}
				Step::Scoped { body, .. } | Step::GuardOps { ops: body } => {
					if body.iter().any(|b| matches!(b, BodyOp::DebugTarget(_) | BodyOp::DebugGuard)) {
						hit = true
					}
				}
				_ => {}
			}
		}
		hit && r.executed_steps >= 2
	};
	let e = SeqEval { prop: "C17", opts, nontrivial: &nontrivial, extra: None };
	let n = tier.pick(40_000, 1_000_000);
	ctx.search("seq-non-acquiring", n, 220, |bytes, want| {
		let case = gen_seq(&mut Src::new(bytes), &cfg);
		eval_seq_case(&e, &case, want)
	});
	ctx.require_label("nonacq_transient_raw_ops", 200);
	ctx.finish()
}

// ---------------------------------------------------------------------------
// replay

pub fn replay(path: &str) -> i32 {
	let txt = match std::fs::read_to_string(path) {
		Ok(t) => t,
		Err(e) => {
			eprintln!("cannot read {path}: {e}");
			return 2;
		}
	};
	let doc: Value = match serde_json::from_str(&txt) {
		Ok(v) => v,
		Err(e) => {
			eprintln!("cannot parse {path}: {e}");
			return 2;
		}
	};
	let prop = doc["property"].as_str().unwrap_or("").to_string();
	let c = &doc["case"];
	let engine = c["engine"].as_str().unwrap_or("");
	let opts = opts_from(&c["opts"]);
	let known = KnownFindings::load();
	let findings: Vec<Finding> = match engine {
		"seq" => {
			let case: SeqCase = match serde_json::from_value(c["case"].clone()) {
				Ok(c) => c,
				Err(e) => {
					eprintln!("bad seq case: {e}");
					return 2;
				}
			};
			let r = run_seq(&case, opts);
			for l in &r.trace {
				println!("  {l}");
			}
			let mut f = mine(&prop, &r);
			f.extend(post_findings(&prop, &AnyCase::Seq(case), &r));
			f
		}
		"conc" => {
			let case: ConcCase = match serde_json::from_value(c["case"].clone()) {
				Ok(c) => c,
				Err(e) => {
					eprintln!("bad conc case: {e}");
					return 2;
				}
			};
			let r = run_conc(&case, Opts { conc: true, ..opts });
			for l in &r.trace {
				println!("  {l}");
			}
			let mut f = mine(&prop, &r);
			f.extend(post_findings(&prop, &AnyCase::Conc(case), &r));
			f
		}
		_ => {
			eprintln!("unknown engine in replay file");
			return 2;
		}
	};
	let mut code = 0;
	for f in &findings {
		let p = if f.prop == "PANIC" { prop.as_str() } else { f.prop };
		if let Some(k) = known.matches(p, &f.sig) {
			println!("KNOWN-FINDING: property={prop} {} [{}]", k.what, k.signature);
		} else {
			println!("VIOLATION property={prop} replay={path}");
			println!("  {} :: {}", f.sig, f.detail);
			code = 1;
		}
	}
	if findings.is_empty() {
		println!("replay {path}: property {prop} held on this case");
	}
	code
}

/// post-hoc oracles computed from the whole run (filled in per property)
pub fn post_findings(_prop: &str, _case: &AnyCase, _r: &RunResult) -> Vec<Finding> {
	Vec::new()
}
