//! Per-property checks: generator configuration, evaluator (which findings
//! count, what is non-trivial), campaign sizes, and the replay entry point.

use serde_json::{json, Value};

use crate::case::*;
use crate::engine::*;
use crate::faults::*;
use crate::exec::FaultPlan;
use crate::gen::*;
use crate::interp::{Finding, Opts};
use crate::runner::*;
use crate::world::*;

pub const ALL: &[&str] = &[
	"C01", "C02", "C03", "C04", "C05", "C06", "C07", "C08", "C09", "C10", "C11", "C12", "C13", "C14", "C15", "C16", "C17",
];

fn opts_json(o: &Opts) -> Value {
	json!({"quiescent": o.quiescent, "faults": o.faults, "conc": o.conc})
}

fn opts_from(v: &Value) -> Opts {
	Opts {
		quiescent: v["quiescent"].as_bool().unwrap_or(false),
		faults: v["faults"].as_bool().unwrap_or(false),
		conc: v["conc"].as_bool().unwrap_or(false),
	}
}

pub fn describe_world(w: &WorldSpec) -> Vec<String> {
	let mut v = Vec::new();
	for (i, l) in w.leaves.iter().enumerate() {
		v.push(format!("L{i}: {}{:?}", "Poisonable ".repeat(l.wraps as usize), l.ty));
	}
	for (i, c) in w.colls.iter().enumerate() {
		let content = match &c.content {
			Content::ByRef(m) => format!("{m:?}"),
			Content::ByVal(m) => format!("by-value {m:?}"),
		};
		v.push(format!("C{i}: {}{:?}::{:?}({:?} of {})", if c.pois { "Poisonable " } else { "" }, c.kind, c.ctor, c.cont, content));
	}
	v
}

fn sample_seq(case: &SeqCase, r: &RunResult) -> Value {
	json!({
		"engine": "seq",
		"world": describe_world(&case.world),
		"threads": case.nthreads,
		"steps": case.steps.iter().map(|(t, s)| format!("t{t}: {s:?}")).collect::<Vec<_>>(),
		"fault": case.fault,
		"trace": r.trace.iter().take(60).collect::<Vec<_>>(),
		"executed_steps": r.executed_steps,
		"skipped_steps": r.skipped_steps,
	})
}

fn sample_conc(case: &ConcCase, r: &RunResult) -> Value {
	json!({
		"engine": "conc",
		"world": describe_world(&case.world),
		"writer_preferring": case.writer_pref,
		"programs": case.programs.iter().enumerate().map(|(t, p)| format!("t{t}: {p:?}")).collect::<Vec<_>>(),
		"schedule_choices(idx,enabled)": r.taken.iter().filter(|(_, n)| *n > 1).take(40).collect::<Vec<_>>(),
		"trace": r.trace.iter().take(80).collect::<Vec<_>>(),
		"switches": r.switches,
	})
}

fn mine(prop: &str, r: &RunResult) -> Vec<Finding> {
	let mut v: Vec<Finding> = r.findings.iter().filter(|f| f.prop == prop || f.prop == "PANIC").cloned().collect();
	// run-time halves of the two compile-time properties: what the type system
	// promises only holds if the library's run-time part keeps its side
	match prop {
		// data is reachable only under a live hold: the hold must really be there
		"C15" => v.extend(r.findings.iter().filter(|f| f.prop == "C02").map(|f| Finding { prop: "C15", sig: format!("data-reached-without-a-live-hold|{}", f.sig), ..f.clone() })),
		// one key per thread, surrendered for the whole of every hold
		// total allocation is what makes the ordering argument work: a key that
		// can be had while the thread holds a lock allows hold-and-wait
		"C01" => v.extend(
			r.findings
				.iter()
				.filter(|f| f.prop == "C03" && (f.sig.starts_with("key-obtainable-while-holding") || f.sig.starts_with("key-back-while-holding")))
				.map(|f| Finding { prop: "C01", sig: format!("hold-and-wait-possible|{}", f.sig), ..f.clone() }),
		),
		// the value that comes back is the last one written under the lock:
		// only if sections on the same lock really exclude each other
		"C16" => v.extend(r.findings.iter().filter(|f| f.prop == "C02").map(|f| Finding { prop: "C16", sig: format!("last-write-not-protected|{}", f.sig), ..f.clone() })),
		"C14" => v.extend(
			r.findings
				.iter()
				.filter(|f| {
					(f.prop == "C06" && f.sig.starts_with("second-key"))
						|| (f.prop == "C03" && (f.sig.starts_with("key-back-while-holding") || f.sig.starts_with("acquire-while-holding") || f.sig.starts_with("key-obtainable-while-holding")))
				})
				.map(|f| Finding { prop: "C14", sig: format!("key-usable-during-a-hold|{}", f.sig), ..f.clone() }),
		),
		_ => {}
	}
	v
}

/// SEQ and CONC campaigns of `bases` evaluated for `prop` (see `mine`)
fn runtime_half(ctx: &mut CheckCtx, prop: &'static str, tier: Tier, seq_bases: &[&'static str], conc_base: &'static str) {
	for base in seq_bases {
		let (cfg, opts) = seq_profile(base).unwrap();
		let nontrivial = |_c: &SeqCase, r: &RunResult| has(r, "acquire.") && r.executed_steps >= 3;
		let e = SeqEval { prop, opts, nontrivial: &nontrivial, extra: None };
		let n = tier.pick(40_000, 800_000);
		ctx.search(&format!("runtime-half-seq-histories-of-{base}"), n, 220, |bytes, want| {
			let case = gen_seq(&mut Src::new(bytes), &cfg);
			eval_seq_case(&e, &case, want)
		});
	}
	let cfg = conc_profile(conc_base).unwrap_or_default();
	let nontrivial = |case: &ConcCase, r: &RunResult| conc_nontrivial(conc_base, case, r);
	let e = ConcEval { prop, nontrivial: &nontrivial, extra: None };
	let n = tier.pick(25_000, 500_000);
	ctx.search(&format!("runtime-half-conc-programs-of-{conc_base}"), n, 260, |bytes, want| {
		let case = gen_conc(&mut Src::new(bytes), &cfg);
		eval_conc_case(&e, &case, want)
	});
}

fn has(r: &RunResult, label_prefix: &str) -> bool {
	r.labels.keys().any(|k| k.starts_with(label_prefix))
}

/// labels attached to a case for the evidence distribution: the run's own
/// labels (once per case) plus shape classes
fn case_labels(world: &WorldSpec, r: &RunResult) -> Vec<String> {
	let mut v: Vec<String> = r.labels.keys().map(|k| {
		// acquisition labels carry the shape: keep api + kind, drop container detail noise
		k.clone()
	}).collect();
	for c in &world.colls {
		v.push(format!("world.kind.{:?}", c.kind));
		v.push(format!("world.cont.{:?}", c.cont));
		match &c.content {
			Content::ByRef(m) => {
				if m.iter().any(|x| matches!(x, MemberSpec::Coll(_) | MemberSpec::Inner(..))) {
					v.push("world.nested".into());
				}
				if m.iter().any(|x| matches!(x, MemberSpec::Wrap(_))) {
					v.push("world.inline_wrap".into());
				}
			}
			Content::ByVal(m) => {
				v.push("world.byval".into());
				if m.iter().any(|x| matches!(x, OMemberSpec::Coll(_))) {
					v.push("world.nested".into());
				}
			}
		}
		if c.pois {
			v.push("world.pois_coll".into());
		}
	}
	v.sort();
	v.dedup();
	v
}

pub struct SeqEval<'a> {
	pub prop: &'a str,
	pub opts: Opts,
	pub nontrivial: &'a (dyn Fn(&SeqCase, &RunResult) -> bool + Sync),
	pub extra: Option<&'a (dyn Fn(&SeqCase, &RunResult) -> Vec<Finding> + Sync)>,
}

pub fn eval_seq_case(e: &SeqEval<'_>, case: &SeqCase, want_sample: bool) -> CaseReport {
	let r = run_seq(case, e.opts);
	let mut rep = report_seq(e, case, &r, want_sample);
	// second shrinking stage, on request of the runner (a violation is about to be recorded)
	if let Some(sig) = crate::runner::minimize_sig() {
		if rep.violations.iter().any(|f| f.sig == sig) {
			let fails = |c: &SeqCase| {
				let r = run_seq(c, e.opts);
				if r.invalid.is_some() {
					return false;
				}
				let mut v = mine(e.prop, &r);
				if let Some(x) = e.extra {
					v.extend(x(c, &r));
				}
				v.iter().any(|f| f.sig == sig)
			};
			let small = crate::minimize::minimize_seq(case, &fails);
			if &small != case {
				let r2 = run_seq(&small, e.opts);
				let rep2 = report_seq(e, &small, &r2, false);
				if rep2.violations.iter().any(|f| f.sig == sig) {
					rep.replay = rep2.replay;
					rep.violations = rep2.violations;
				}
			}
		}
	}
	rep
}

pub fn report_seq(e: &SeqEval<'_>, case: &SeqCase, r: &RunResult, want_sample: bool) -> CaseReport {
	if r.invalid.is_some() {
		return CaseReport { invalid: true, ..Default::default() };
	}
	let mut violations = mine(e.prop, r);
	if let Some(x) = e.extra {
		violations.extend(x(case, r));
	}
	let nontrivial = (e.nontrivial)(case, r);
	let replay = if violations.is_empty() {
		None
	} else {
		Some(json!({"engine": "seq", "opts": opts_json(&e.opts), "case": case, "trace": r.trace, "world": describe_world(&case.world)}))
	};
	CaseReport {
		violations,
		nontrivial,
		fp: fp_str(&format!("{case:?}")),
		labels: case_labels(&case.world, r),
		inconclusive: r.inconclusive.clone(),
		invalid: false,
		sample: if want_sample && nontrivial { Some(sample_seq(case, r)) } else { None },
		replay,
		..Default::default()
	}
}

pub struct ConcEval<'a> {
	pub prop: &'a str,
	pub nontrivial: &'a (dyn Fn(&ConcCase, &RunResult) -> bool + Sync),
	pub extra: Option<&'a (dyn Fn(&ConcCase, &RunResult) -> Vec<Finding> + Sync)>,
}

pub fn eval_conc_case(e: &ConcEval<'_>, case: &ConcCase, want_sample: bool) -> CaseReport {
	let mut rep = eval_conc_case_plain(e, case, want_sample);
	if let Some(sig) = crate::runner::minimize_sig() {
		if rep.violations.iter().any(|f| f.sig == sig) {
			// start from the exact choices taken
			let start: ConcCase = rep.replay.as_ref().and_then(|v| serde_json::from_value(v["case"].clone()).ok()).unwrap_or_else(|| case.clone());
			let fails = |c: &ConcCase| {
				let r = eval_conc_case_plain(e, c, false);
				!r.invalid && r.violations.iter().any(|f| f.sig == sig)
			};
			let small = crate::minimize::minimize_conc(&start, &fails);
			if small != start {
				let rep2 = eval_conc_case_plain(e, &small, false);
				if rep2.violations.iter().any(|f| f.sig == sig) {
					rep.replay = rep2.replay;
					rep.violations = rep2.violations;
				}
			}
		}
	}
	rep
}

fn eval_conc_case_plain(e: &ConcEval<'_>, case: &ConcCase, want_sample: bool) -> CaseReport {
	let opts = Opts { conc: true, ..Default::default() };
	let r = run_conc(case, opts);
	if r.invalid.is_some() {
		return CaseReport { invalid: true, ..Default::default() };
	}
	let mut violations = mine(e.prop, &r);
	if let Some(x) = e.extra {
		violations.extend(x(case, &r));
	}
	let nontrivial = (e.nontrivial)(case, &r);
	let replay = if violations.is_empty() {
		None
	} else {
		// store the exact choices taken so that the replay does not depend on the decoder
		let forced: Vec<u8> = r.taken.iter().filter(|(_, n)| *n > 1).map(|(i, _)| *i).collect();
		let mut c = case.clone();
		c.forced = Some(forced);
		Some(json!({"engine": "conc", "opts": opts_json(&opts), "case": c, "trace": r.trace, "world": describe_world(&case.world)}))
	};
	let mut labels = case_labels(&case.world, &r);
	if r.waited {
		labels.push("conc.waited".into());
	}
	if r.switches > 0 {
		labels.push("conc.switched".into());
	}
	labels.push(format!("conc.threads.{}", case.programs.len()));
	labels.push(if case.writer_pref { "conc.writer_pref".into() } else { "conc.reader_pref".into() });
	CaseReport {
		violations,
		nontrivial,
		fp: fp_str(&format!("{:?}{:?}{:?}", case.world, case.programs, r.taken)),
		labels,
		inconclusive: r.inconclusive.clone(),
		invalid: false,
		sample: if want_sample && nontrivial { Some(sample_conc(case, &r)) } else { None },
		replay,
		..Default::default()
	}
}

// ---------------------------------------------------------------------------
// generator configurations

fn base_world() -> WorldCfg {
	// zero-sized members (an owned collection without locks, at the address of
	// a leaf) are part of every sequential world: the library's loops over a
	// flattened lock list meet entries that are not locks
	WorldCfg { p_zst_member: 10, p_own_member: 10, ..WorldCfg::default() }
}

pub fn seq_cfg_general() -> SeqCfg {
	SeqCfg { world: base_world(), w: StepW::default(), max_steps: 14, max_threads: 2 }
}

fn count_steps(case: &SeqCase, f: impl Fn(&Step) -> bool) -> usize {
	case.steps.iter().filter(|(_, s)| f(s)).count()
}

fn any_nested_or_big(case: &SeqCase) -> bool {
	let sem = Sem::new(&case.world);
	case.steps.iter().any(|(_, s)| {
		let t = match s {
			Step::Acquire { target, .. } | Step::Scoped { target, .. } => Some(*target),
			_ => None,
		};
		match t {
			Some(TargetRef::Coll(c)) if c < case.world.colls.len() => {
				let nested = match &case.world.colls[c].content {
					Content::ByRef(m) => m.iter().any(|x| matches!(x, MemberSpec::Coll(_) | MemberSpec::Inner(..))),
					Content::ByVal(m) => m.iter().any(|x| matches!(x, OMemberSpec::Coll(_))),
				};
				let leaves = sem.flats[c].leaves();
				let mut sorted = leaves.clone();
				sorted.sort();
				nested || (leaves.len() >= 3 && leaves != sorted)
			}
			_ => false,
		}
	})
}

// ---------------------------------------------------------------------------
// the checks

pub fn run_check(prop: &str, tier: Tier, seed: u64) -> i32 {
	match prop {
		"C03" => c03(tier, seed),
		"C04" => c04(tier, seed),
		"C05" => c05(tier, seed),
		"C06" => c06(tier, seed),
		"C13" => c13(tier, seed),
		"C17" => c17(tier, seed),
		"C01" => c01(tier, seed),
		"C09" => c09(tier, seed),
		"C12" => c12(tier, seed),
		"C07" => c07(tier, seed),
		"C16" => c16(tier, seed),
		"C14" => types_check("C14", tier, seed),
		"C15" => types_check("C15", tier, seed),
		"C02" => c02(tier, seed),
		"C08" => c08(tier, seed),
		"C10" => c10(tier, seed),
		"C11" => c11(tier, seed),
		_ => {
			eprintln!("unknown or unbuilt property {prop}");
			2
		}
	}
}

fn c06(tier: Tier, seed: u64) -> i32 {
	let mut ctx = CheckCtx::new("C06", "exploration", tier, seed);
	ctx.rule = "SEQ histories decoded from proptest byte vectors (16 runners, seeds f(VERIF_SEED, worker)) over the key-affecting vocabulary (get/drop/forget key, key parked as the data of a lock inside 10 kinds of owning containers which are then dropped / leaked / taken apart by into_inner, into_child or get_mut, lock/try_lock/read/try_read incl. failures, unlock fns, guard drop/forget, scoped_* with lent and owned key, panicking closures and guards, poisoned results) on 1-2 threads; after every step and inside every closure ThreadKey::get() is compared with the reference model 'key alive'. Non-trivial = the history moved a key through a carrier (guard, failed try, owned-key scoped call, unwinding) and performed a later GetKey; distinct = hash of the decoded case.".into();
	let (cfg, opts) = seq_profile("C06").unwrap();
	let nontrivial = |case: &SeqCase, r: &RunResult| {
		let carrier = has(r, "acquire.") || has(r, "panic_") || has(r, "forget_");
		let mut seen_acq = false;
		let mut later_get = false;
		for (_, s) in &case.steps {
			match s {
				Step::Acquire { .. } | Step::Scoped { .. } => seen_acq = true,
				Step::GetKey if seen_acq => later_get = true,
				_ => {}
			}
		}
		carrier && later_get && r.executed_steps >= 3
	};
	let e = SeqEval { prop: "C06", opts, nontrivial: &nontrivial, extra: None };
	let n = tier.pick(100_000, 3_000_000);
	ctx.search("seq-key-histories", n, 220, |bytes, want| {
		let case = gen_seq(&mut Src::new(bytes), &cfg);
		eval_seq_case(&e, &case, want)
	});
	// compile-time half: a key cannot reach a thread from outside its own history
	match crate::tyeng::Toolchain::locate() {
		Ok(tc) => {
			let pairs = types_pairs_for("C06", tier);
			let items: Vec<usize> = (0..pairs.len()).collect();
			ctx.enumerate("types-no-key-from-another-thread-copy-or-forgery", items, |i, want| types_report(&tc, &pairs[*i], want));
			tc.cleanup();
		}
		Err(e) => ctx.health_errors.push(format!("TYPES engine: {e}")),
	}
	ctx.require_label("panic_in_scoped", 50);
	ctx.require_label("forget_", 50);
	ctx.require_label("try_failed", 50);
	// the key after a raw lock operation panicked: whatever the call does on
	// its way out, the key it was given is dropped or handed back, not lost
	// (C12's fault enumeration, read by the key model)
	{
		let n = tier.pick(30_000, 800_000);
		ctx.search("seq-key-after-raw-faults", n, 160, |bytes, want| {
			let mut rep = c12_eval_props(bytes, want, &["C06"]);
			let keep: Vec<Finding> = rep.violations.drain(..).filter(|f| f.prop == "C06").collect();
			if keep.is_empty() {
				rep.replay = None;
			}
			rep.violations = keep;
			rep
		});
	}
	ctx.require_label("park_drop", 50);
	ctx.require_label("park_apart", 50);
	ctx.finish()
}

fn c13(tier: Tier, seed: u64) -> i32 {
	let mut ctx = CheckCtx::new("C13", "exploration", tier, seed);
	ctx.rule = "SEQ: a world (all collection kinds / containers / nestings), a pattern of phantom holders (free / read-held / write-held per leaf), then try_lock / try_read / scoped_try_* on every target; Ok must hold iff the reference table allows it, a failed attempt must leave the owner table unchanged, a successful one must be undone by dropping the guard. Non-trivial = at least one leaf held by a phantom and a target with >= 2 leaves; distinct = hash of the decoded case.".into();
	let (cfg, opts) = seq_profile("C13").unwrap();
	let nontrivial = |case: &SeqCase, r: &RunResult| {
		let held = count_steps(case, |s| matches!(s, Step::PhantomHold { .. })) > 0;
		let sem = Sem::new(&case.world);
		let multi = case.steps.iter().any(|(_, s)| match s {
			Step::Acquire { target: TargetRef::Coll(c), try_: true, .. } | Step::Scoped { target: TargetRef::Coll(c), try_: true, .. } => {
				*c < sem.flats.len() && sem.flats[*c].pos.len() >= 2
			}
			_ => false,
		});
		held && multi && (has(r, "try_failed") || has(r, "acquire.try") || has(r, "acquire.scoped_try"))
	};
	// a try_* call that waits never delivers the outcome the statement fixes
	// (in a quiescent state it would wait for ever instead of failing)
	let extra = |case: &SeqCase, r: &RunResult| -> Vec<Finding> { post_findings("C13", &AnyCase::Seq(case.clone()), r) };
	let e = SeqEval { prop: "C13", opts, nontrivial: &nontrivial, extra: Some(&extra) };
	let n = tier.pick(150_000, 4_000_000);
	ctx.search("seq-quiescent-try", n, 200, |bytes, want| {
		let case = gen_seq(&mut Src::new(bytes), &cfg);
		eval_seq_case(&e, &case, want)
	});
	// exhaustive slice: every depth-1 shape x arrangement x held pattern x try API
	let maxn = tier.pick(3, 4) as usize;
	let items = c13_exhaustive_items(maxn);
	let nitems = items.len();
	ctx.enumerate("exhaustive-depth1-shapes-x-held-patterns", items, |case, want| eval_seq_case(&e, case, want));
	ctx.extra.insert(
		"exhaustive_slice".into(),
		json!(format!("{nitems} cases: by-reference {{Boxed, Ref, Retry}}::try_new and by-value {{Owned, Boxed, Retry}}::new over {{Vec, Box<[_]>, array, tuple}} of 0..={maxn} RwLock leaves, every permutation (by-ref), every assignment of {{free, read-held, write-held}} to the leaves, x {{try_lock, try_read, scoped_try_lock, scoped_try_read}}; single RwLock and Mutex leaves likewise")),
	);
	types_half(&mut ctx, "C13", tier, "types-unchecked-constructors-take-owned-input-only");
	ctx.require_label("try_failed", 200);
	ctx.require_label("rollback", 100);
	ctx.finish()
}

fn permutations(n: usize) -> Vec<Vec<usize>> {
	if n == 0 {
		return vec![vec![]];
	}
	let mut out = Vec::new();
	for p in permutations(n - 1) {
		for i in 0..=p.len() {
			let mut q = p.clone();
			q.insert(i, n - 1);
			out.push(q);
		}
	}
	out
}

fn c13_exhaustive_items(maxn: usize) -> Vec<SeqCase> {
	let mut items = Vec::new();
	let conts = [Cont::Vec, Cont::BoxSlice, Cont::Array, Cont::Tuple];
	let mut worlds: Vec<(WorldSpec, usize)> = Vec::new(); // (world, nleaves of the target)
	for n in 0..=maxn {
		for cont in conts {
			if cont == Cont::Tuple && n == 0 {
				continue;
			}
			for kind in [KindTag::Boxed, KindTag::Ref, KindTag::Retry] {
				for perm in permutations(n) {
					worlds.push((
						WorldSpec {
							leaves: vec![LeafDecl { ty: LeafTy::R, wraps: 0 }; n],
							colls: vec![CollSpec { kind, ctor: Ctor::TryNew, cont, content: Content::ByRef(perm.iter().map(|i| MemberSpec::Leaf(*i)).collect()), pois: false }],
							layout: vec![],
						},
						n,
					));
				}
			}
			for kind in [KindTag::Owned, KindTag::Boxed, KindTag::Retry] {
				worlds.push((
					WorldSpec {
						leaves: vec![],
						colls: vec![CollSpec {
							kind,
							ctor: Ctor::New,
							cont,
							content: Content::ByVal((0..n).map(|_| OMemberSpec::Leaf(LeafDecl { ty: LeafTy::R, wraps: 0 })).collect()),
							pois: false,
						}], layout: vec![] },
					n,
				));
			}
		}
	}
	for (world, n) in worlds {
		let mut pat = vec![0u8; n];
		loop {
			for (read, scoped) in [(false, false), (true, false), (false, true), (true, true)] {
				let mut steps: Vec<(u8, Step)> = vec![(0, Step::GetKey)];
				for (l, p) in pat.iter().enumerate() {
					match p {
						1 => steps.push((0, Step::PhantomHold { leaf: l as u32, shared: true, transient: false })),
						2 => steps.push((0, Step::PhantomHold { leaf: l as u32, shared: false, transient: false })),
						_ => {}
					}
				}
				let t = TargetRef::Coll(0);
				if scoped {
					steps.push((0, Step::Scoped { target: t, read, try_: true, owned_key: false, body: vec![BodyOp::Touch] }));
				} else {
					steps.push((0, Step::Acquire { target: t, read, try_: true }));
					steps.push((0, Step::GuardOps { ops: vec![BodyOp::Touch] }));
					steps.push((0, Step::Release { how: ReleaseHow::Drop }));
				}
				items.push(SeqCase { world: world.clone(), nthreads: 1, steps, fault: None });
			}
			// next pattern (base 3)
			let mut i = 0;
			loop {
				if i == n {
					break;
				}
				pat[i] += 1;
				if pat[i] < 3 {
					break;
				}
				pat[i] = 0;
				i += 1;
			}
			if i == n {
				break;
			}
		}
	}
	// single locks
	for ty in [LeafTy::R, LeafTy::M] {
		for wraps in 0..=2u8 {
			for p in 0..3u8 {
				for (read, scoped) in [(false, false), (true, false), (false, true), (true, true)] {
					if read && ty == LeafTy::M {
						continue;
					}
					let mut steps: Vec<(u8, Step)> = vec![(0, Step::GetKey)];
					match p {
						1 if ty == LeafTy::R => steps.push((0, Step::PhantomHold { leaf: 0, shared: true, transient: false })),
						2 => steps.push((0, Step::PhantomHold { leaf: 0, shared: false, transient: false })),
						_ => {}
					}
					let t = TargetRef::Leaf(0);
					if scoped {
						steps.push((0, Step::Scoped { target: t, read, try_: true, owned_key: true, body: vec![BodyOp::Touch] }));
					} else {
						steps.push((0, Step::Acquire { target: t, read, try_: true }));
						steps.push((0, Step::Release { how: ReleaseHow::UnlockFn }));
					}
					items.push(SeqCase { world: WorldSpec { leaves: vec![LeafDecl { ty, wraps }], colls: vec![], layout: vec![] }, nthreads: 1, steps, fault: None });
				}
			}
		}
	}
	items
}

fn c04(tier: Tier, seed: u64) -> i32 {
	let mut ctx = CheckCtx::new("C04", "exploration", tier, seed);
	ctx.rule = "SEQ: collection specs (kind x ctor x container x nesting <= 2 x sizes 0..5 x arrangement) x mode x API flavour x pre-held pattern (phantom read/write holders and holds of a second thread); after every acquisition the caller's held multiset must equal the leaf multiset of the spec (Ok) or be empty with the key back (Err), no try_* may wait, scoped closures run once iff success. Non-trivial = a try_* failed after taking >= 1 member (rollback), or the target nests collections, or it has >= 3 leaves declared in non-sorted order; distinct = hash of the decoded case.".into();
	let (cfg, opts) = seq_profile("C04").unwrap();
	let nontrivial = |case: &SeqCase, r: &RunResult| (has(r, "rollback") || any_nested_or_big(case)) && has(r, "acquire.");
	let e = SeqEval { prop: "C04", opts, nontrivial: &nontrivial, extra: None };
	let n = tier.pick(120_000, 4_000_000);
	ctx.search("seq-all-or-nothing", n, 220, |bytes, want| {
		let case = gen_seq(&mut Src::new(bytes), &cfg);
		eval_seq_case(&e, &case, want)
	});
	conc_campaign(&mut ctx, "C04", tier);
	types_half(&mut ctx, "C04", tier, "types-no-lock-listed-twice-no-list-changed-afterwards");
	ctx.require_label("rollback", 100);
	ctx.require_label("world.nested", 500);
	ctx.finish()
}

fn c03(tier: Tier, seed: u64) -> i32 {
	let mut ctx = CheckCtx::new("C03", "exploration", tier, seed);
	ctx.rule = "SEQ histories over the full acquire/release vocabulary (every API flavour of single locks, the four collection kinds, Poisonable; failed try via phantom holders; poisoned Err carrying a guard; panicking closures; lent and owned keys); oracle: at the first raw operation of every acquiring call the caller holds nothing, and whenever a key comes back (Err(key), unlock fn, scoped call returned) the caller holds nothing. Non-trivial = >= 2 acquisitions with a key hand-back in between through a failed try, an unlock fn, or an unwound call; distinct = hash of the decoded case.".into();
	let (cfg, opts) = seq_profile("C03").unwrap();
	let nontrivial = |_case: &SeqCase, r: &RunResult| {
		let acq: u64 = r.labels.iter().filter(|(k, _)| k.starts_with("acquire.")).map(|(_, v)| *v).sum();
		acq >= 2 && (has(r, "try_failed") || has(r, "key_via_unlock") || has(r, "panic_in_scoped") || has(r, "panic_with_guard"))
	};
	let e = SeqEval { prop: "C03", opts, nontrivial: &nontrivial, extra: None };
	let n = tier.pick(120_000, 4_000_000);
	ctx.search("seq-total-allocation", n, 220, |bytes, want| {
		let case = gen_seq(&mut Src::new(bytes), &cfg);
		eval_seq_case(&e, &case, want)
	});
	conc_campaign(&mut ctx, "C03", tier);
	types_half(&mut ctx, "C03", tier, "types-no-hold-can-be-duplicated");
	ctx.require_label("key_via_unlock", 200);
	ctx.require_label("try_failed", 100);
	ctx.finish()
}

fn c05(tier: Tier, seed: u64) -> i32 {
	let mut ctx = CheckCtx::new("C05", "exploration", tier, seed);
	ctx.rule = "SEQ histories (as C03/C04) with the release audit of the verification raw locks: every raw unlock must be issued by a thread that holds the lock in that mode; per call, releases == holds (multiset); after all guards are dropped every lock is free except holds leaked on purpose. Non-trivial = a collection of >= 2 leaves was acquired and released, or a rollback happened; distinct = hash of the decoded case.".into();
	let (cfg, opts) = seq_profile("C05").unwrap();
	let nontrivial = |_case: &SeqCase, r: &RunResult| has(r, "released_multi") || has(r, "rollback");
	let e = SeqEval { prop: "C05", opts, nontrivial: &nontrivial, extra: None };
	let n = tier.pick(120_000, 4_000_000);
	ctx.search("seq-release-audit", n, 220, |bytes, want| {
		let case = gen_seq(&mut Src::new(bytes), &cfg);
		eval_seq_case(&e, &case, want)
	});
	conc_campaign(&mut ctx, "C05", tier);
	types_half(&mut ctx, "C05", tier, "types-holds-stay-on-the-thread-that-took-them");
	// releases that go wrong in the raw lock: C12's fault enumeration (one-shot
	// at every index, persistent faults on one and on two members), read for
	// what it says about the OTHER holds of the call - each released exactly
	// once, nothing released that the caller does not hold
	{
		let n = tier.pick(30_000, 800_000);
		ctx.search("seq-releases-under-raw-faults", n, 160, |bytes, want| {
			let mut rep = c12_eval(bytes, want);
			let keep = c05_from_c12(rep.violations.drain(..).collect());
			if keep.is_empty() {
				rep.replay = None;
			}
			rep.violations = keep;
			rep
		});
	}
	ctx.require_label("released_multi", 500);
	ctx.require_label("rollback", 100);
	ctx.finish()
}

fn c17(tier: Tier, seed: u64) -> i32 {
	let mut ctx = CheckCtx::new("C17", "exploration", tier, seed);
	ctx.rule = "SEQ: non-acquiring operations ({:?} of locks / collections / guards, is_poisoned, clear_poison, child/iter accessors, checked constructors + into_child on temporary collections) executed while leaves are free / read-held / write-held by phantoms, by another thread's live guard, by the calling thread's own guard or from inside its own running scoped closure; oracle: no blocking raw operation had to wait (incl. self-wait) and the owner table after == before. Non-trivial = >= 1 leaf was held by anyone during the operation; distinct = hash of the decoded case.".into();
	let (cfg, opts) = seq_profile("C17").unwrap();
	let nontrivial = |case: &SeqCase, r: &RunResult| {
		// some hold existed while a non-acquiring op ran: approximated per case by
		// "a hold step precedes a non-acquiring step" or a Debug inside a section
		let mut holding = false;
		let mut hit = false;
		for (_, s) in &case.steps {
			match s {
				Step::PhantomHold { .. } | Step::Acquire { .. } => holding = true,
				Step::Debug { .. } | Step::Accessors { .. } | Step::TempColl { .. } | Step::IsPoisoned { .. } | Step::ClearPoison { .. } => {
					if holding {
						hit = true
					}
				}
				Step::Scoped { body, .. } | Step::GuardOps { ops: body } => {
					if body.iter().any(|b| matches!(b, BodyOp::DebugTarget(_) | BodyOp::DebugGuard)) {
						hit = true
					}
				}
				_ => {}
			}
		}
		hit && r.executed_steps >= 2
	};
	let e = SeqEval { prop: "C17", opts, nontrivial: &nontrivial, extra: None };
	let n = tier.pick(150_000, 3_000_000);
	ctx.search("seq-non-acquiring", n, 220, |bytes, want| {
		let case = gen_seq(&mut Src::new(bytes), &cfg);
		eval_seq_case(&e, &case, want)
	});
	// a non-acquiring operation racing with acquisitions of other threads
	// (check-then-act inside Debug would wait there)
	conc_campaign(&mut ctx, "C17", tier);
	// `{:?}` whose raw try / unlock operations panic (C12's fault enumeration,
	// restricted to the base cases that format a target): whatever it does on
	// the way out, it must not release holds it never took nor keep any
	{
		let n = tier.pick(40_000, 1_000_000);
		ctx.search("seq-debug-under-raw-faults", n, 160, |bytes, want| {
			let mut rep = c12_eval(bytes, want);
			let keep = c17_from_c12(rep.violations.drain(..).collect());
			if keep.is_empty() {
				rep.replay = None;
			}
			rep.violations = keep;
			rep
		});
	}
	ctx.require_label("nonacq_transient_raw_ops", 200);
	ctx.finish()
}

/// C12 findings about `{:?}` read as C17 findings
fn c17_from_c12(v: Vec<Finding>) -> Vec<Finding> {
	v.into_iter()
		.filter(|f| f.prop == "C12" && f.sig.contains("|debug|"))
		.map(|f| Finding { prop: "C17", sig: format!("disturbs|debug|raw-panic|{}", f.sig), ..f })
		.collect()
}

/// C07 findings about an accepted duplicate, read as C15 findings
fn c15_from_c07(v: Vec<Finding>) -> Vec<Finding> {
	v.into_iter()
		.filter(|f| f.prop == "C07" && f.sig.starts_with("false-negative"))
		.map(|f| Finding { prop: "C15", sig: format!("checked-constructor-accepts-a-lock-listed-twice|{}", f.sig), ..f })
		.collect()
}

/// C12 findings about calls whose closure panicked, read as C11 findings
fn c11_from_c12(v: Vec<Finding>) -> Vec<Finding> {
	v.into_iter()
		.filter(|f| f.prop == "C12" && f.sig.contains("+closure-panics") && (f.sig.starts_with("leak|") || f.sig.starts_with("illegal-release:")))
		.map(|f| Finding { prop: "C11", sig: format!("leak-after-panic|raw-panic|{}", f.sig), ..f })
		.collect()
}

/// C12 findings that are about a hold which is not released exactly once, or
/// about a release of a lock the caller does not hold, read as C05 findings
fn c05_from_c12(v: Vec<Finding>) -> Vec<Finding> {
	v.into_iter()
		.filter(|f| f.prop == "C12" && (f.sig.starts_with("leak|") || f.sig.starts_with("holds-faulted-lock|") || f.sig.starts_with("illegal-release:")))
		.map(|f| {
			let what = if f.sig.starts_with("illegal-release:") { "released-without-holding" } else { "not-released" };
			Finding { prop: "C05", sig: format!("{what}|raw-panic|{}", f.sig), ..f }
		})
		.collect()
}

// ---------------------------------------------------------------------------
// replay

/// Run the case stored in a replay file once (bypassing proptest and the
/// decoders) and return the findings of its property's oracles.
pub fn replay_findings(path: &str, verbose: bool) -> Result<(String, Vec<Finding>), i32> {
	let txt = match std::fs::read_to_string(path) {
		Ok(t) => t,
		Err(e) => {
			eprintln!("cannot read {path}: {e}");
			return Err(2);
		}
	};
	let doc: Value = match serde_json::from_str(&txt) {
		Ok(v) => v,
		Err(e) => {
			eprintln!("cannot parse {path}: {e}");
			return Err(2);
		}
	};
	let prop = doc["property"].as_str().unwrap_or("").to_string();
	let c = &doc["case"];
	let engine = c["engine"].as_str().unwrap_or("");
	let opts = opts_from(&c["opts"]);
	let findings: Vec<Finding> = match engine {
		"seq" => {
			let case: SeqCase = match serde_json::from_value(c["case"].clone()) {
				Ok(c) => c,
				Err(e) => {
					eprintln!("bad seq case: {e}");
					return Err(2);
				}
			};
			let r = run_seq(&case, opts);
			if verbose {
				for l in &r.trace {
					println!("  {l}");
				}
			}
			let mut f = mine(&prop, &r);
			if prop == "C07" {
				f.extend(c07_eval(&case, &r).0);
			}
			if prop == "C15" {
				f.extend(c15_from_c07(c07_eval(&case, &r).0));
			}
			if c.get("c12").is_some() {
				let api = c["c12"]["api"].as_str().unwrap_or("?").to_string();
				let kind = c["c12"]["kind"].as_str().unwrap_or("?").to_string();
				let cf = c12_findings(&case, &api, &kind, &r);
				match prop.as_str() {
					"C12" => f.extend(cf),
					"C17" => f.extend(c17_from_c12(cf)),
					"C05" => f.extend(c05_from_c12(cf)),
					"C11" => f.extend(c11_from_c12(cf)),
					_ => {}
				}
			}
			f.extend(post_findings(&prop, &AnyCase::Seq(case), &r));
			f
		}
		"conc" => {
			let case: ConcCase = match serde_json::from_value(c["case"].clone()) {
				Ok(c) => c,
				Err(e) => {
					eprintln!("bad conc case: {e}");
					return Err(2);
				}
			};
			let r = run_conc(&case, Opts { conc: true, ..opts });
			if verbose {
				for l in &r.trace {
					println!("  {l}");
				}
			}
			let mut f = mine(&prop, &r);
			f.extend(post_findings(&prop, &AnyCase::Conc(case), &r));
			f
		}
		"drops" => {
			let plan: crate::drops::DPlan = match serde_json::from_value(c["plan"].clone()) {
				Ok(p) => p,
				Err(e) => {
					eprintln!("bad plan: {e}");
					return Err(2);
				}
			};
			crate::drops::run_plan(&plan).findings
		}
		"types" => {
			let pair: crate::tyeng::Pair = match serde_json::from_value(c["pair"].clone()) {
				Ok(p) => p,
				Err(e) => {
					eprintln!("bad types pair: {e}");
					return Err(2);
				}
			};
			let tc = match crate::tyeng::Toolchain::locate() {
				Ok(t) => t,
				Err(e) => {
					eprintln!("TYPES engine: {e}");
					return Err(2);
				}
			};
			let rep = types_report(&tc, &pair, false);
			tc.cleanup();
			if let Some(i) = rep.inconclusive {
				eprintln!("INCONCLUSIVE: {i}");
				return Err(2);
			}
			if verbose {
				println!("--- offending program ---\n{}", pair.offending);
			}
			rep.violations
		}
		_ => {
			eprintln!("unknown engine in replay file");
			return Err(2);
		}
	};
	Ok((prop, findings))
}

pub fn replay(path: &str) -> i32 {
	let (prop, findings) = match replay_findings(path, true) {
		Ok(x) => x,
		Err(c) => return c,
	};
	let known = KnownFindings::load();
	let mut code = 0;
	for f in &findings {
		let p = if f.prop == "PANIC" { prop.as_str() } else { f.prop };
		if let Some(k) = known.matches(p, &f.sig) {
			println!("KNOWN-FINDING: property={prop} {} [{}]", k.what, k.signature);
		} else {
			println!("VIOLATION property={prop} replay={path}");
			println!("  {} :: {}", f.sig, f.detail);
			code = 1;
		}
	}
	if findings.is_empty() {
		println!("replay {path}: property {prop} held on this case");
	}
	code
}

/// post-hoc oracles computed from the whole run
pub fn post_findings(prop: &str, case: &AnyCase, r: &RunResult) -> Vec<Finding> {
	let world = match case {
		AnyCase::Seq(c) => &c.world,
		AnyCase::Conc(c) => &c.world,
		AnyCase::Types(_) => return Vec::new(),
	};
	match prop {
		"C08" => order_findings(world, r),
		"C13" => r
			.findings
			.iter()
			.filter(|f| f.prop == "C04" && f.sig.starts_with("try-waits"))
			.map(|f| Finding { prop: "C13", sig: format!("waits-instead-of-failing|{}", f.sig), ..f.clone() })
			// a release of a lock somebody else holds (refused by the verification
			// lock, effective on a real one) changes that lock's hold state
			.chain(
				r.findings
					.iter()
					.filter(|f| f.prop == "C05" && f.sig == "illegal-release|Foreign")
					.map(|f| Finding { prop: "C13", sig: "releases-hold-of-another-thread".into(), ..f.clone() }),
			)
			.collect(),
		"C10" => r
			.findings
			.iter()
			.filter(|f| f.prop == "C13" && f.sig.starts_with("try-failed-but-free") && has(r, "panic_"))
			.map(|f| Finding { prop: "C10", sig: format!("unusable-after-panic|{}", f.sig), ..f.clone() })
			.collect(),
		_ => Vec::new(),
	}
}

/// C08: the blocking acquisition sequences of sorting collections must agree
/// pairwise on the relative order of common locks, be stable, and keep every
/// owned group contiguous and in its declared order.
pub fn order_findings(world: &WorldSpec, r: &RunResult) -> Vec<Finding> {
	let mut out = Vec::new();
	let sorting = |t: &TargetRef| match t {
		TargetRef::Coll(c) => *c < world.colls.len() && matches!(world.colls[*c].kind, KindTag::Boxed | KindTag::Ref),
		_ => false,
	};
	let seqs: Vec<&(TargetRef, bool, Vec<u32>)> = r.acq_orders.iter().filter(|(t, _, _)| sorting(t)).collect();
	let mut before: std::collections::HashMap<(u32, u32), usize> = std::collections::HashMap::new();
	for (si, (t, _, seq)) in seqs.iter().enumerate() {
		for i in 0..seq.len() {
			for j in (i + 1)..seq.len() {
				if seq[i] == seq[j] {
					continue;
				}
				if let Some(other) = before.get(&(seq[j], seq[i])) {
					let (ot, _, oseq) = seqs[*other];
					out.push(Finding {
						prop: "C08",
						sig: "order-disagreement".into(),
						detail: format!(
							"{t:?} blocks on L{} before L{} (sequence {seq:?}) but {ot:?} blocks on them the other way round (sequence {oseq:?})",
							seq[i], seq[j]
						),
						step: None,
						tid: 0,
					});
					return out;
				}
				before.entry((seq[i], seq[j])).or_insert(si);
			}
		}
		// owned groups are acquired as one unit: contiguous (the order inside a group is the group's own business: it may contain sorting collections)
		let g = |l: u32| r.group_of.get(l as usize).copied().unwrap_or(u32::MAX);
		for i in 0..seq.len() {
			let gi = g(seq[i]);
			if gi == u32::MAX {
				continue;
			}
			for j in (i + 1)..seq.len() {
				if g(seq[j]) == gi {
					if (i + 1..j).any(|k| g(seq[k]) != gi) {
						out.push(Finding {
							prop: "C08",
							sig: "owned-group-split".into(),
							detail: format!("{t:?}: an owned collection is not acquired as one unit: {seq:?}"),
							step: None,
							tid: 0,
						});
						return out;
					}
				}
			}
		}
	}
	// stability: the same collection in the same mode always gives the same sequence
	let mut first: std::collections::HashMap<(TargetRef, bool), &Vec<u32>> = std::collections::HashMap::new();
	for (t, rd, seq) in seqs.iter().map(|x| (&x.0, x.1, &x.2)) {
		match first.get(&(*t, rd)) {
			Some(prev) if *prev != seq => {
				out.push(Finding {
					prop: "C08",
					sig: "order-unstable".into(),
					detail: format!("{t:?} was acquired in order {prev:?} and later in order {seq:?}"),
					step: None,
					tid: 0,
				});
				return out;
			}
			None => {
				first.insert((*t, rd), seq);
			}
			_ => {}
		}
	}
	out
}

fn c08(tier: Tier, seed: u64) -> i32 {
	let mut ctx = CheckCtx::new("C08", "exploration", tier, seed);
	ctx.rule = "SEQ: worlds with 2-5 sorting collections (boxed / ref; members: leaves, Poisonable wrappers, nested boxed/ref/retrying collections, owned collections and by-value groups) over a shared universe of <= 5 leaves, later collections being permuted copies of earlier ones; every blocking lock/read/scoped call records its sequence of blocking raw acquisitions. Metamorphic oracle: all sequences agree pairwise on the relative order of common locks (union of precedence pairs acyclic), the same collection always gives the same sequence, owned groups are contiguous (acquired as one unit). Non-trivial = two sorting collections sharing >= 2 leaves listed in different relative order were both acquired, or a nested member whose listing order differs from the acquisition order; distinct = hash of the decoded case.".into();
	let (cfg, opts) = seq_profile("C08").unwrap();
	let nontrivial = |case: &SeqCase, r: &RunResult| c08_nontrivial(&case.world, r);
	let extra = |case: &SeqCase, r: &RunResult| order_findings(&case.world, r);
	let e = SeqEval { prop: "C08", opts, nontrivial: &nontrivial, extra: Some(&extra) };
	let n = tier.pick(150_000, 3_000_000);
	ctx.search("seq-acquisition-order", n, 240, |bytes, want| {
		let case = gen_seq(&mut Src::new(bytes), &cfg);
		eval_seq_case(&e, &case, want)
	});
	conc_campaign(&mut ctx, "C08", tier);
	types_half(&mut ctx, "C08", tier, "types-member-list-cannot-change-after-sorting");
	ctx.require_label("world.nested", 1000);
	ctx.finish()
}

pub fn c08_nontrivial(world: &WorldSpec, r: &RunResult) -> bool {
	let sorting = |t: &TargetRef| match t {
		TargetRef::Coll(c) => *c < world.colls.len() && matches!(world.colls[*c].kind, KindTag::Boxed | KindTag::Ref),
		_ => false,
	};
	let sem = Sem::new(world);
	let seqs: Vec<&(TargetRef, bool, Vec<u32>)> = r.acq_orders.iter().filter(|(t, _, s)| sorting(t) && s.len() >= 2).collect();
	// declared order of a target differs from the order it was acquired in
	for (t, _, seq) in &seqs {
		let declared = sem.target_flat(*t).leaves();
		let d: Vec<u32> = declared.iter().filter(|l| seq.contains(l)).cloned().collect();
		if &d != seq {
			// and some other sequence shares two of its leaves
			for (t2, _, s2) in &seqs {
				if t2 != t && seq.iter().filter(|l| s2.contains(l)).count() >= 2 {
					return true;
				}
			}
		}
	}
	false
}

fn c02(tier: Tier, seed: u64) -> i32 {
	let mut ctx = CheckCtx::new("C02", "exploration", tier, seed);
	ctx.rule = "SEQ part: every collection shape (kind x container x nesting x arrangement) is acquired through guards and scoped closures by 1-2 threads; at every visit of a protected value the owner table must say the visiting thread holds that leaf in a sufficient mode (held-at-use), position i must show the payload of declared member i (routing), the version seen must equal the shadow version left by the last exclusive section (continuity), closures run with the whole leaf set held. CONC part: the same oracles in 2-4 thread programs with a scheduling point inside every critical section, under generated schedules. Non-trivial = (SEQ) a target with >= 2 leaves whose declared order differs from lock-id order or that nests collections was visited; (CONC) two threads had sections on a common leaf, one exclusive, with a context switch in between; distinct = hash of case (+ schedule).".into();
	let (cfg, opts) = seq_profile("C02").unwrap();
	let nontrivial = |case: &SeqCase, r: &RunResult| any_nested_or_big(case) && r.raw_ops >= 4;
	let e = SeqEval { prop: "C02", opts, nontrivial: &nontrivial, extra: None };
	let n = tier.pick(150_000, 3_000_000);
	ctx.search("seq-routing-held-at-use", n, 220, |bytes, want| {
		let case = gen_seq(&mut Src::new(bytes), &cfg);
		eval_seq_case(&e, &case, want)
	});
	conc_campaign(&mut ctx, "C02", tier);
	// "a scoped closure runs only while all of its locks are held": a checked or
	// sorted collection whose member list can be changed afterwards hands out
	// members it never locked; decided at compile time
	match crate::tyeng::Toolchain::locate() {
		Ok(tc) => {
			let pairs: Vec<crate::tyeng::Pair> = crate::tyeng::families_mutation_after_check()
				.into_iter()
				.map(|mut p| {
					p.prop = "C02".into();
					p.family = "C02-member-list-fixed-after-construction".into();
					p
				})
				.collect();
			let mut pairs = pairs;
			// who may touch the data, and from where: references that outlive their
			// section, auto traits (differential against std)
			pairs.extend(types_pairs_for("C02", tier));
			surface_pairs(&mut ctx, "C02", &mut pairs);
			let items: Vec<usize> = (0..pairs.len()).collect();
			ctx.enumerate("types-member-list-cannot-change-after-construction", items, |i, want| types_report(&tc, &pairs[*i], want));
			tc.cleanup();
		}
		Err(e) => ctx.health_errors.push(format!("TYPES engine: {e}")),
	}
	ctx.require_label("world.nested", 1000);
	ctx.finish()
}

/// shared CONC campaign: the property's CONC profile, its own findings from the
/// per-step oracles (which also run under the scheduler) plus post-hoc oracles
pub fn conc_campaign(ctx: &mut CheckCtx, prop: &'static str, tier: Tier) {
	let cfg = conc_profile(prop).unwrap_or_default();
	let nontrivial = |case: &ConcCase, r: &RunResult| conc_nontrivial(prop, case, r);
	let extra = |case: &ConcCase, r: &RunResult| post_findings(prop, &AnyCase::Conc(case.clone()), r);
	let e = ConcEval { prop, nontrivial: &nontrivial, extra: Some(&extra) };
	let n = tier.pick(60_000, 1_500_000);
	ctx.search("conc-programs-x-schedules", n, 260, |bytes, want| {
		let case = gen_conc(&mut Src::new(bytes), &cfg);
		eval_conc_case(&e, &case, want)
	});
}

pub fn conc_nontrivial(prop: &str, case: &ConcCase, r: &RunResult) -> bool {
	match prop {
		"C08" => c08_nontrivial(&case.world, r),
		"C17" => r.switches > 0 && has(r, "nonacq_transient_raw_ops"),
		"C10" => has(r, "panic_in_section") && (has(r, "poison_observed_after_panic") || has(r, "poisoned_acquire")),
		"C02" => {
			// two threads touched a common leaf, one exclusively, and the scheduler switched
			r.switches > 0 && {
				let mut by_leaf: std::collections::HashMap<u32, Vec<(u8, bool)>> = std::collections::HashMap::new();
				for e in &r.events {
					if e.op.is_acquire() && matches!(e.out, crate::exec::Outcome::Ok | crate::exec::Outcome::OkWaited) {
						by_leaf.entry(e.lid).or_default().push((e.tid, e.op.is_shared()));
					}
				}
				by_leaf.values().any(|v| v.iter().any(|(t, sh)| !*sh && v.iter().any(|(t2, _)| t2 != t)))
			}
		}
		_ => r.waited || has(r, "rollback"),
	}
}

fn c10(tier: Tier, seed: u64) -> i32 {
	let mut ctx = CheckCtx::new("C10", "exploration", tier, seed);
	ctx.rule = "SEQ histories on 1-2 threads over Poisonable-heavy worlds (Poisonable leaves, double wrappers, inline Poisonable<&lock> members, Poisonable collections, nested): holds through the wrapper's own guard and scoped calls and through every collection kind's guards and scoped calls, try paths, panics injected at any hold, clear_poison, is_poisoned, later acquisitions by both threads. Reference model per wrapper: Clean / Poisoned (panic under an exclusive hold) / Unspecified (panic under a shared hold only); compared with is_poisoned(), Ok/Err of every acquisition and of every member position. Also: a poisoned acquisition holds the lock and its guard works; plain locks stay usable. Non-trivial = a panic during a hold followed by an observation of that wrapper, or a clear followed by a re-poison; distinct = hash of the decoded case.".into();
	let (cfg, opts) = seq_profile("C10").unwrap();
	let nontrivial = |_case: &SeqCase, r: &RunResult| has(r, "panic_in_section") && (has(r, "poison_observed_after_panic") || has(r, "poisoned_acquire") || has(r, "clear_after_poison"));
	let extra = |case: &SeqCase, r: &RunResult| post_findings("C10", &AnyCase::Seq(case.clone()), r);
	let e = SeqEval { prop: "C10", opts, nontrivial: &nontrivial, extra: Some(&extra) };
	let n = tier.pick(150_000, 3_000_000);
	ctx.search("seq-poison-histories", n, 260, |bytes, want| {
		let case = gen_seq(&mut Src::new(bytes), &cfg);
		eval_seq_case(&e, &case, want)
	});
	conc_campaign(&mut ctx, "C10", tier);
	types_half(&mut ctx, "C10", tier, "types-no-route-around-the-poison-flag");
	ctx.require_label("poisoned_acquire", 500);
	ctx.require_label("clear_after_poison", 100);
	ctx.finish()
}

fn c11(tier: Tier, seed: u64) -> i32 {
	let mut ctx = CheckCtx::new("C11", "exploration", tier, seed);
	ctx.rule = "SEQ: API flavour x kind x size x mode x {owned, lent key} with a panic (private payload) injected while the guard is alive or inside the closure; oracle: catch_unwind yields our payload, afterwards the caller holds nothing, releases == holds (multiset), ThreadKey::get() is Some if the key had been moved in (or the lent key works again). CONC: the panic in a critical section of 2-4 thread programs with waiters; the execution must complete (no deadlock, all threads finish). Non-trivial = >= 2 leaves were held at the panic (SEQ) or another thread was waiting for one of them (CONC); distinct = hash of case (+ schedule).".into();
	let (cfg, opts) = seq_profile("C11").unwrap();
	let nontrivial = |case: &SeqCase, r: &RunResult| {
		if !has(r, "panic_in_section") {
			return false;
		}
		let sem = Sem::new(&case.world);
		case.steps.iter().any(|(_, s)| match s {
			Step::Scoped { target, body, .. } => body.contains(&BodyOp::Panic) && sem_len(&sem, &case.world, *target) >= 2,
			_ => false,
		}) || (has(r, "panic_with_guard") && has(r, "released_multi") || any_nested_or_big(case))
	};
	let e = SeqEval { prop: "C11", opts, nontrivial: &nontrivial, extra: None };
	let n = tier.pick(150_000, 3_000_000);
	ctx.search("seq-panic-in-section", n, 220, |bytes, want| {
		let case = gen_seq(&mut Src::new(bytes), &cfg);
		eval_seq_case(&e, &case, want)
	});
	// CONC half: panics with waiters
	let mut ccfg = ConcCfg::default();
	ccfg.p_panic = 110;
	let cnon = |_case: &ConcCase, r: &RunResult| has(r, "panic_in_section") && r.waited;
	let cextra = |_case: &ConcCase, r: &RunResult| -> Vec<Finding> {
		// a stuck execution after a panic: the waiters did not proceed
		if !has(r, "panic_in_section") {
			return Vec::new();
		}
		r.findings
			.iter()
			.filter(|f| f.prop == "C01" && (f.sig == "deadlock" || f.sig == "no-progress-cycle"))
			.map(|f| Finding { prop: "C11", sig: format!("waiters-stuck-after-panic|{}", f.sig), ..f.clone() })
			.collect()
	};
	let ce = ConcEval { prop: "C11", nontrivial: &cnon, extra: Some(&cextra) };
	let n = tier.pick(30_000, 1_000_000);
	ctx.search("conc-panic-with-waiters", n, 260, |bytes, want| {
		let case = gen_conc(&mut Src::new(bytes), &ccfg);
		eval_conc_case(&ce, &case, want)
	});
	// a panicking closure whose clean-up meets a raw lock that panics as well:
	// C12's fault enumeration over the base cases with a panicking closure,
	// read for what stays held afterwards
	{
		let n = tier.pick(30_000, 800_000);
		ctx.search("seq-closure-panic-then-raw-faults", n, 160, |bytes, want| {
			let mut rep = c12_eval(bytes, want);
			let keep = c11_from_c12(rep.violations.drain(..).collect());
			if keep.is_empty() {
				rep.replay = None;
			}
			rep.violations = keep;
			rep
		});
	}
	ctx.require_label("panic_in_scoped", 1000);
	ctx.require_label("panic_with_guard", 1000);
	ctx.finish()
}

fn sem_len(sem: &Sem, world: &WorldSpec, t: TargetRef) -> usize {
	match t {
		TargetRef::Leaf(_) => 1,
		TargetRef::Coll(c) if c < world.colls.len() => sem.flats[c].pos.len(),
		_ => 0,
	}
}


fn c01(tier: Tier, seed: u64) -> i32 {
	let mut ctx = CheckCtx::new("C01", "exploration", tier, seed);
	ctx.rule = "CONC: programs of 1-4 logical threads (each an OS thread, one running at a time), 1-3 acquisitions each over a pool of 2-6 targets (single locks; boxed / ref / owned / retrying collections over permutations and subsets of 2-5 shared leaves, nesting <= 2, Poisonable wrappers), read and write, guard / try / scoped APIs, yields inside sections, both RwLock wake policies; the schedule is generated data (choice bytes, then run-to-block). Oracle: no state in which every unfinished thread waits (deadlock), no thread waits for a lock it holds itself, no no-progress cycle; every execution ends with all threads finished and all locks free. Tiny programs are additionally explored over ALL schedules. Non-trivial = some thread found its blocking request ungrantable (it waited) or a retrying acquisition rolled back; distinct = hash(world, programs, choices taken).".into();
	let cfg = conc_profile("C01").unwrap();
	let nontrivial = |_case: &ConcCase, r: &RunResult| r.waited || has(r, "rollback");
	let e = ConcEval { prop: "C01", nontrivial: &nontrivial, extra: None };
	let n = tier.pick(60_000, 2_000_000);
	ctx.search("conc-programs-x-schedules", n, 260, |bytes, want| {
		let case = gen_conc(&mut Src::new(bytes), &cfg);
		eval_conc_case(&e, &case, want)
	});
	// one thread alone: a checked collection must not be extendable through safe
	// post-construction accessors (it could then contain a lock twice and a single
	// thread would spin on a lock it holds itself): decided at compile time
	match crate::tyeng::Toolchain::locate() {
		Ok(tc) => {
			let mut pairs = crate::tyeng::families_mutation_after_check();
			pairs.extend(types_pairs_for("C01", tier));
			surface_pairs(&mut ctx, "C01", &mut pairs);
			let items: Vec<usize> = (0..pairs.len()).collect();
			ctx.enumerate("types-mutation-after-check-is-rejected", items, |i, want| types_report(&tc, &pairs[*i], want));
			tc.cleanup();
		}
		Err(e) => ctx.health_errors.push(format!("TYPES engine: {e}")),
	}
	// all schedules of tiny programs
	let tcfg = tiny_conc_cfg();
	let cap = tier.pick(4_000, 20_000) as usize;
	let n = tier.pick(1_500, 40_000);
	ctx.search_balanced("conc-tiny-programs-all-schedules", n, 120, |bytes, want| {
		let case = gen_conc(&mut Src::new(bytes), &tcfg);
		exhaust_program(&e, &case, cap, want)
	});
	ctx.extra.insert("exhaustive_slice".into(), json!("for every generated 2-thread / 1-acquisition program labelled conc.exhaustive.program_fully_enumerated, ALL schedules at raw-operation granularity were executed (stateless DFS over the choices at branch points)"));
	ctx.require_label("conc.exhaustive.program_fully_enumerated", 100);
	ctx.require_label("conc.waited", 1000);
	ctx.require_label("conc.writer_pref", 1000);
	ctx.require_label("world.kind.Retry", 1000);
	ctx.finish()
}

fn c09(tier: Tier, seed: u64) -> i32 {
	let mut ctx = CheckCtx::new("C09", "exploration", tier, seed);
	ctx.rule = "CONC: thread 0 acquires a retrying collection (1-4 members, read/write, any arrangement, guard and scoped APIs, possibly containing owned groups and nested collections) while 1-3 other threads hold or acquire overlapping leaves singly or through any other kind; random schedule prefix, then run-to-block. Oracle: whenever a thread whose current top-level call is on a retrying collection has a pending blocking request that is not grantable, it holds no lock outside the owned group of the awaited lock; the acquisition completes with exactly its leaves held (C04 oracle) and the execution terminates. Non-trivial = the retrying thread rolled back at least once (a try failed after >= 1 member was held); distinct = hash(world, programs, choices taken).".into();
	let mut cfg = ConcCfg::default();
	cfg.retry_first = true;
	cfg.world.kinds = vec![];
	cfg.world.min_colls = 2;
	cfg.p_try = 20;
	let nontrivial = |case: &ConcCase, r: &RunResult| retry_rolled_back(case, r);
	let extra = |_case: &ConcCase, r: &RunResult| -> Vec<Finding> {
		// completion: a stuck execution whose retrying call never returned
		r.findings
			.iter()
			.filter(|f| f.prop == "C01" && (f.sig == "deadlock" || f.sig == "no-progress-cycle"))
			.map(|f| Finding { prop: "C09", sig: format!("does-not-complete|{}", f.sig), ..f.clone() })
			.chain(r.findings.iter().filter(|f| f.prop == "C04" && f.sig.contains("Retry")).map(|f| Finding { prop: "C09", ..f.clone() }))
			.collect()
	};
	let e = ConcEval { prop: "C09", nontrivial: &nontrivial, extra: Some(&extra) };
	let n = tier.pick(60_000, 2_000_000);
	ctx.search("conc-retrying-vs-contenders", n, 260, |bytes, want| {
		let case = gen_conc(&mut Src::new(bytes), &cfg);
		let mut rep = eval_conc_case(&e, &case, want);
		if rep.nontrivial {
			rep.labels.push("retry.rolled_back".into());
		}
		rep
	});
	let mut tcfg = tiny_conc_cfg();
	tcfg.retry_first = true;
	let cap = tier.pick(4_000, 20_000) as usize;
	let n = tier.pick(1_500, 40_000);
	ctx.search_balanced("conc-tiny-retry-programs-all-schedules", n, 120, |bytes, want| {
		let case = gen_conc(&mut Src::new(bytes), &tcfg);
		exhaust_program(&e, &case, cap, want)
	});
	// retrying acquisitions chasing each other: small worlds of retrying collections
	// over the same few leaves in different orders, every thread starts with one of
	// them, and the schedule is a short motif repeated 240 times (strict alternation
	// keeps two of them rolling back for dozens of rounds) before run-to-block
	{
		let mut ccfg = tiny_conc_cfg();
		ccfg.world = WorldCfg { min_leaves: 2, max_leaves: 3, min_colls: 2, max_colls: 3, max_members: 3, kinds: vec![KindTag::Retry], p_copy_permuted: 200, p_byval: 0, p_nested: 0, p_wrap: 0, ..WorldCfg::default() };
		ccfg.max_threads = 3;
		ccfg.retry_all = true;
		ccfg.p_try = 0;
		ccfg.p_read = 50;
		ccfg.p_scoped = 90;
		ccfg.p_pattern_sched = 230;
		ccfg.pattern_len = 240;
		let n = tier.pick(20_000, 600_000);
		ctx.search("conc-retry-chase-periodic-schedules", n, 120, |bytes, want| {
			let case = gen_conc(&mut Src::new(bytes), &ccfg);
			let mut rep = eval_conc_case(&e, &case, want);
			if rep.nontrivial {
				rep.labels.push("retry.rolled_back".into());
			}
			rep
		});
	}
	// SEQ: every blocking request of the thread under test meets a holder that
	// finishes only once it is waited for
	{
		let (scfg, sopts) = seq_profile("C09").unwrap();
		let snon = |_case: &SeqCase, r: &RunResult| has(r, "rollback");
		let se = SeqEval { prop: "C09", opts: sopts, nontrivial: &snon, extra: None };
		let n = tier.pick(60_000, 1_500_000);
		ctx.search("seq-retrying-vs-transient-holders", n, 220, |bytes, want| {
			let case = gen_seq(&mut Src::new(bytes), &scfg);
			eval_seq_case(&se, &case, want)
		});
	}
	types_half(&mut ctx, "C09", tier, "types-members-of-an-owned-collection-cannot-be-reached-singly");
	ctx.require_label("conc.exhaustive.program_fully_enumerated", 100);
	ctx.require_label("retry.rolled_back", 500);
	ctx.finish()
}

/// did a retrying acquisition release members it had taken because another member was busy?
fn retry_rolled_back(case: &ConcCase, r: &RunResult) -> bool {
	// frames on retrying targets: a failed try followed by a release inside the same frame
	for f in &r.frames {
		if !f.label.contains(":Retry<") && !f.label.contains(":PRetry<") {
			continue;
		}
		let evs: Vec<&crate::exec::Event> = r.events.iter().filter(|e| e.frame == f.id).collect();
		let mut held = 0i32;
		for e in evs {
			match (e.op.is_acquire(), e.out) {
				(true, crate::exec::Outcome::Ok | crate::exec::Outcome::OkWaited) => held += 1,
				(true, crate::exec::Outcome::Fail) => {
					if held >= 1 {
						return true;
					}
				}
				(false, crate::exec::Outcome::Ok) => held -= 1,
				_ => {}
			}
		}
	}
	let _ = case;
	false
}


/// one base case of C12 with every fault plan (also the body of the fuzz target)
pub fn c12_eval(bytes: &[u8], want: bool) -> CaseReport {
	c12_eval_props(bytes, want, &[])
}

/// The fault enumeration; `also` names further properties whose findings (made
/// by the interpreter's own oracles during the faulted runs) are collected.
pub fn c12_eval_props(bytes: &[u8], want: bool, also: &[&str]) -> CaseReport {
	let mut src = Src::new(bytes);
	let base = gen_c12_base(&mut src);
	let (nops, r0) = count_ops(&base);
	if r0.invalid.is_some() {
		return CaseReport { invalid: true, ..Default::default() };
	}
	let mut rep = CaseReport { fp: fp_str(&format!("{:?}", base.case)), ..Default::default() };
	let mut labels: std::collections::BTreeSet<String> = case_labels(&base.case.world, &r0).into_iter().collect();
	labels.insert(format!("c12.api.{}", base.api));
	labels.insert(format!("c12.kind.{}", base.kind));
	let mut plans: Vec<FaultPlan> = (0..nops.min(60)).map(|i| FaultPlan { one_shot: Some(i), persistent: vec![] }).collect();
	// persistent fault sets on member locks
	let sem = Sem::new(&base.case.world);
	let faulted_step = match base.case.steps[base.fault_step].1.clone() {
		Step::UnwindingDrop { inner } => *inner,
		s => s,
	};
	let tflat = match faulted_step {
		Step::Acquire { target, .. } | Step::Scoped { target, .. } => sem.target_flat(target).leaves(),
		_ => match base.case.steps.iter().find_map(|(_, s)| if let Step::Acquire { target, .. } = s { Some(*target) } else { None }) {
			Some(t) => sem.target_flat(t).leaves(),
			None => vec![],
		},
	};
	if !tflat.is_empty() && nops > 0 {
		for _ in 0..2 {
			let l = tflat[src.pick(tflat.len())];
			let mask = match src.pick(5) {
				0 => crate::exec::Op::Lock.bit() | crate::exec::Op::LockSh.bit() | crate::exec::Op::Unlock.bit() | crate::exec::Op::UnlockSh.bit(),
				1 => crate::exec::Op::TryLock.bit() | crate::exec::Op::TryLockSh.bit() | crate::exec::Op::Unlock.bit() | crate::exec::Op::UnlockSh.bit(),
				2 => crate::exec::Op::Unlock.bit() | crate::exec::Op::UnlockSh.bit(),
				3 => 0x3f,
				_ => crate::exec::Op::TryLock.bit() | crate::exec::Op::TryLockSh.bit(),
			};
			plans.push(FaultPlan { one_shot: None, persistent: vec![(l, mask)] });
		}
		// two members that misbehave at once (the second panic arrives while
		// the first one is being handled)
		let mut distinct = tflat.clone();
		distinct.sort();
		distinct.dedup();
		// only for calls that release through the library's own loop (scoped
		// calls, rollbacks inside them, `{:?}`): a guard whose drop glue meets
		// two panicking destructors aborts the process by language rule
		let no_guard = matches!(faulted_step, Step::Scoped { .. } | Step::Debug { .. });
		if distinct.len() >= 2 && no_guard {
			let a = src.pick(distinct.len());
			let mut b = src.pick(distinct.len() - 1);
			if b >= a {
				b += 1;
			}
			let rel = crate::exec::Op::Unlock.bit() | crate::exec::Op::UnlockSh.bit();
			let mask2 = |k: usize| match k {
				0 => rel,
				1 => rel | crate::exec::Op::TryLock.bit() | crate::exec::Op::TryLockSh.bit(),
				_ => 0x3f,
			};
			let (ma, mb) = (mask2(src.pick(3)), mask2(src.pick(3)));
			plans.push(FaultPlan { one_shot: None, persistent: vec![(distinct[a], ma), (distinct[b], mb)] });
		}
	}
	for plan in plans {
		let case = with_fault(&base, plan);
		let r = run_seq(&case, FAULT_OPTS);
		rep.extra_evals += 1;
		let mut f = c12_findings(&case, &base.api, &base.kind, &r);
		f.extend(r.findings.iter().filter(|f| f.prop == "C12" || f.prop == "PANIC" || also.contains(&f.prop)).cloned());
		if let Some((_, _, op, _)) = r.fault_fired.first() {
			labels.insert(format!("c12.fault.{}", op.short()));
			if !case.fault.as_ref().unwrap().plan.persistent.is_empty() {
				labels.insert("c12.persistent_fired".into());
			}
		}
		if r.labels.contains_key("probed_faulted_lock") {
			labels.insert("c12.probed".into());
		}
		if c12_nontrivial(&case, &r, nops) {
			rep.extra_nontrivial.push(fp_str(&format!("{case:?}")));
			if want && rep.sample.is_none() {
				rep.sample = Some(sample_seq(&case, &r));
				rep.nontrivial = true;
			}
		}
		if !f.is_empty() && rep.replay.is_none() {
			rep.replay = Some(json!({"engine": "seq", "opts": opts_json(&FAULT_OPTS), "case": case, "trace": r.trace, "world": describe_world(&case.world), "c12": {"api": base.api, "kind": base.kind}}));
		}
		rep.violations.extend(f);
		if let Some(i) = r.inconclusive {
			rep.inconclusive = Some(i);
		}
	}
	rep.labels = labels.into_iter().collect();
	rep
}

fn c12(tier: Tier, seed: u64) -> i32 {
	let mut ctx = CheckCtx::new("C12", "fault_enumeration", tier, seed);
	ctx.rule = "Base cases decoded from proptest byte vectors: world (all kinds, Mutex and RwLock leaves, nesting, by-value and by-reference) x target x {write, read} x {lock, try_lock, scoped_lock, scoped_try_lock, guard drop, unlock fn} x pre-held pattern (phantom read/write holders). Each base case is run fault-free to count the raw operations n of the chosen call, then re-run with a one-shot panic at EVERY raw-operation index 0..n-1, and with 2 persistent per-(lock, operation-class) fault sets (as tests/evil_*.rs) placed on member locks. Oracle on the trace of the faulted call: the panic reaches the caller; no release of a lock the caller does not hold; nothing but a lock whose own release panicked stays held; afterwards try_* on the faulted lock fails and a blocking acquisition panics. Non-trivial = the fault index is neither the first nor the last operation and another lock was held at the fault; distinct = hash(base case, fault plan). evaluations counts every faulted execution.".into();
	ctx.assumptions.push("fault model: a faulted raw operation has no effect on the lock state (like the repository's evil_* locks)".into());
	let n = tier.pick(40_000, 1_500_000);
	ctx.search("seq-fault-enumeration", n, 160, |bytes, want| c12_eval(bytes, want));
	ctx.require_label("c12.fault.unlock", 500);
	ctx.require_label("c12.fault.try", 500);
	ctx.require_label("c12.fault.lock", 500);
	ctx.require_label("c12.persistent_fired", 300);
	ctx.finish()
}


/// steps that lock (and, where possible, read) every collection of the world once
fn use_every_collection(world: &WorldSpec) -> Vec<(u8, Step)> {
	let sem = Sem::new(world);
	let mut steps = vec![(0u8, Step::GetKey)];
	for c in 0..world.colls.len() {
		let t = TargetRef::Coll(c);
		steps.push((0, Step::Acquire { target: t, read: false, try_: false }));
		steps.push((0, Step::GuardOps { ops: vec![BodyOp::Touch] }));
		steps.push((0, Step::Release { how: ReleaseHow::UnlockFn }));
		if sem.sharable(t) {
			steps.push((0, Step::Scoped { target: t, read: true, try_: false, owned_key: false, body: vec![BodyOp::Touch] }));
		}
	}
	steps
}

fn c07_eval(case: &SeqCase, r: &RunResult) -> (Vec<Finding>, bool, Vec<String>) {
	let sem = Sem::new(&case.world);
	let mut out = Vec::new();
	let mut nontrivial = false;
	let mut labels = Vec::new();
	for (ci, c) in case.world.colls.iter().enumerate() {
		if r.skipped_colls.contains(&ci) {
			continue;
		}
		let checked = c.ctor == Ctor::TryNew;
		let rejected = r.rejected.contains(&ci);
		let dup = sem.has_duplicate(ci);
		let kind = format!("{:?}<{:?}>", c.kind, c.cont);
		if checked {
			labels.push(format!("c07.{}.{}", format!("{:?}", c.kind).to_lowercase(), if dup { "dup" } else { "nodup" }));
		}
		if rejected && !dup {
			out.push(Finding {
				prop: "C07",
				sig: format!("false-positive|{:?}", c.kind),
				detail: format!("{kind}::try_new rejected collection C{ci} = {:?} although no lock is reachable twice (units {:?})", c.content, sem.own_units[ci]),
				step: None,
				tid: 0,
			});
		}
		if !rejected && dup {
			out.push(Finding {
				prop: "C07",
				sig: format!("false-negative|{:?}", c.kind),
				detail: format!("{kind}::{:?} accepted collection C{ci} = {:?} although a lock is reachable twice (units {:?})", c.ctor, c.content, sem.own_units[ci]),
				step: None,
				tid: 0,
			});
		}
		// classification
		let u = &sem.own_units[ci];
		let nested = match &c.content {
			Content::ByRef(m) => m.iter().any(|x| matches!(x, MemberSpec::Coll(_) | MemberSpec::Inner(..) | MemberSpec::Wrap(_))),
			Content::ByVal(m) => m.iter().any(|x| matches!(x, OMemberSpec::Coll(_))),
		};
		if checked && dup {
			let mut nonadj = false;
			for i in 0..u.len() {
				for j in (i + 2)..u.len() {
					if u[i] == u[j] && !(i + 1..j).any(|k| u[k] == u[i]) {
						nonadj = true;
					}
				}
			}
			if (u.len() >= 3 && nonadj) || nested {
				nontrivial = true;
				labels.push(if nested { "c07.dup_hidden_in_nested_or_wrapper".into() } else { "c07.dup_nonadjacent".into() });
			}
		} else if checked && u.len() >= 3 && nested {
			nontrivial = true;
		}
	}
	// a collection that was accepted must be usable
	for f in &r.findings {
		if matches!(f.prop, "C04" | "C02" | "C05" | "C01" | "PANIC") {
			out.push(Finding { prop: "C07", sig: format!("accepted-but-unusable|{}", f.sig), ..f.clone() });
		}
	}
	(out, nontrivial, labels)
}

/// one case of C07's random campaign (also the body of the fuzz target)
pub fn c07_random_eval(bytes: &[u8], want: bool) -> CaseReport {
	let mut wcfg = WorldCfg::default();
	wcfg.allow_dups = true;
	wcfg.max_members = 6;
	wcfg.min_colls = 1;
	wcfg.max_colls = 5;
	wcfg.p_byval = 50;
	wcfg.p_nested = 110;
	wcfg.p_copy_permuted = 50;
	// zero-sized members: an empty owned collection found at the address of a lock
	wcfg.p_zst_member = 25;
	wcfg.p_own_member = 20;
	let opts = Opts::default();
	let world = gen_world(&mut Src::new(bytes), &wcfg);
	let steps = use_every_collection(&world);
	let case = SeqCase { world, nthreads: 1, steps, fault: None };
	let r = run_seq(&case, opts);
	if r.invalid.is_some() {
		return CaseReport { invalid: true, ..Default::default() };
	}
	let (violations, nontrivial, mut labels) = c07_eval(&case, &r);
	labels.extend(case_labels(&case.world, &r).into_iter().filter(|l| l.starts_with("world.")));
	labels.sort();
	labels.dedup();
	let replay = if violations.is_empty() { None } else { Some(json!({"engine": "seq", "opts": opts_json(&opts), "case": case, "trace": r.trace, "world": describe_world(&case.world)})) };
	CaseReport {
		violations,
		nontrivial,
		fp: fp_str(&format!("{:?}", case.world)),
		labels,
		inconclusive: r.inconclusive.clone(),
		sample: if want && nontrivial { Some(json!({"world": describe_world(&case.world), "rejected": r.rejected, "model_units": Sem::new(&case.world).own_units})) } else { None },
		replay,
		..Default::default()
	}
}

fn c07(tier: Tier, seed: u64) -> i32 {
	let mut ctx = CheckCtx::new("C07", "exploration", tier, seed);
	ctx.rule = "Member lists of length 0..6 over <= 5 leaves (Mutex / RwLock, Poisonable wrappers, inline Poisonable<&lock>) and nested members (references to boxed / ref / retrying / owned collections, by-value members of other collections, Poisonable collections), duplicates allowed at any pair of positions, for BoxedLockCollection::try_new, RefLockCollection::try_new and RetryingLockCollection::try_new; oracle: try_new(..) is None iff the flattened unit list of the reference model has a repeated unit (an owned collection counts as one unit); every accepted collection is locked once (and read once where sharable) with the C04/C02 oracles. Plus the exhaustive enumeration of ALL member lists of length <= 5 (thorough: <= 6) over 4 leaves for the three constructors. The compile-time half (new / new_ref reject inputs containing references) is decided by the TYPES engine (families C07-*). Non-trivial = a list with a duplicate whose two occurrences are not adjacent in declared order (length >= 3), or a duplicate hidden inside a nested member / wrapper, or a duplicate-free nested list of >= 3 units; distinct = hash of the decoded world.".into();
	let n = tier.pick(120_000, 3_000_000);
	ctx.search("seq-try_new-vs-model", n, 200, |bytes, want| c07_random_eval(bytes, want));
	let opts = Opts::default();
	// exhaustive: every list over 4 leaves
	let maxlen = tier.pick(5, 6) as usize;
	let mut lists: Vec<(KindTag, Vec<usize>)> = Vec::new();
	for kind in [KindTag::Boxed, KindTag::Ref, KindTag::Retry] {
		let mut cur: Vec<Vec<usize>> = vec![vec![]];
		for _ in 0..=maxlen {
			for l in &cur {
				lists.push((kind, l.clone()));
			}
			let mut next = Vec::new();
			for l in &cur {
				for x in 0..4 {
					let mut l2 = l.clone();
					l2.push(x);
					next.push(l2);
				}
			}
			cur = next;
		}
	}
	ctx.enumerate("exhaustive-lists-over-4-leaves", lists, |(kind, list), want| {
		let world = WorldSpec {
			leaves: vec![LeafDecl { ty: LeafTy::R, wraps: 0 }; 4],
			colls: vec![CollSpec { kind: *kind, ctor: Ctor::TryNew, cont: Cont::Vec, content: Content::ByRef(list.iter().map(|i| MemberSpec::Leaf(*i)).collect()), pois: false }],
			layout: vec![],
		};
		let steps = use_every_collection(&world);
		let case = SeqCase { world, nthreads: 1, steps, fault: None };
		let r = run_seq(&case, opts);
		let (violations, nontrivial, labels) = c07_eval(&case, &r);
		let replay = if violations.is_empty() { None } else { Some(json!({"engine": "seq", "opts": opts_json(&opts), "case": case, "trace": r.trace, "world": describe_world(&case.world)})) };
		CaseReport {
			violations,
			nontrivial,
			fp: fp_str(&format!("{:?}", case.world)),
			labels,
			sample: if want && nontrivial { Some(json!({"world": describe_world(&case.world), "rejected": r.rejected})) } else { None },
			replay,
			..Default::default()
		}
	});
	ctx.extra.insert("exhaustive_slice".into(), json!(format!("all member lists of length 0..={maxlen} over 4 RwLock leaves x {{Boxed, Ref, Retry}}::try_new")));
	// second sentence of the property: the unchecked constructors only accept owned inputs
	{
		let tc = crate::tyeng::Toolchain::locate();
		match tc {
			Ok(tc) => {
				let mut pairs = types_pairs("C07");
				// an owned collection counts as one lock in every duplicate check; that is
				// sound only while no reference to one of its members can leave a hold
				// (methods read from the tree's API surface)
				surface_pairs(&mut ctx, "C07", &mut pairs);
				let items: Vec<usize> = (0..pairs.len()).collect();
				ctx.enumerate("types-unchecked-ctor-needs-owned-input", items, |i, want| types_report(&tc, &pairs[*i], want));
				tc.cleanup();
			}
			Err(e) => ctx.health_errors.push(format!("TYPES engine: {e}")),
		}
	}
	ctx.require_label("types.rejected_on_marked_line", 30);
	ctx.require_label("c07.dup_nonadjacent", 1000);
	ctx.require_label("c07.dup_hidden_in_nested_or_wrapper", 1000);
	// the same verdict in the middle of a history: the members may be poisoned
	// (a panic under a guard of theirs), killed or held when the constructor runs
	{
		let (cfg, opts) = seq_profile("C07").unwrap();
		let nontrivial = |_c: &SeqCase, r: &RunResult| has(r, "temp_ctor_dup") && (has(r, "panic_") || has(r, "kill"));
		let e = SeqEval { prop: "C07", opts, nontrivial: &nontrivial, extra: None };
		let n = tier.pick(60_000, 1_500_000);
		ctx.search("seq-checked-constructors-in-the-middle-of-histories", n, 220, |bytes, want| {
			let case = gen_seq(&mut Src::new(bytes), &cfg);
			eval_seq_case(&e, &case, want)
		});
	}
	ctx.finish()
}


// ---------------------------------------------------------------------------
// TYPES

pub fn types_pairs(prop: &str) -> Vec<crate::tyeng::Pair> {
	types_pairs_for(prop, Tier::Quick)
}

/// quick: every subject with the blocking write API; thorough: x every acquiring API
pub fn types_pairs_for(prop: &str, tier: Tier) -> Vec<crate::tyeng::Pair> {
	let subjects = match tier {
		Tier::Quick => crate::tyeng::Subj::all(),
		Tier::Thorough => crate::tyeng::Subj::all_with_apis(),
	};
	match prop {
		"C14" => crate::tyeng::families_c14(&subjects),
		// a second key on a thread can also come from another thread, from a copy
		// or from a forgery: the routes the compiler is supposed to close
		"C06" => crate::tyeng::families_c14(&crate::tyeng::Subj::all())
			.into_iter()
			.filter(|p| ["K1-key-is-send", "K3-", "K4-", "K9-key-carrying"].iter().any(|f| p.family.starts_with(f)))
			.map(|mut p| {
				p.prop = "C06".into();
				p
			})
			.collect(),
		// Compile-time halves of run-time properties.  Each of these guarantees rests on
		// something only the compiler enforces; the pairs are the same programs that
		// C07 / C14 / C15 judge, filed under the property they would break:
		//   H1  borrowing / shareable types are not `OwnedLockable` (a lock listed twice)
		//   H2  a checked or sorted member list cannot be changed afterwards
		//   D5  no shared access to the members of an owned collection
		//   K*  the one-key discipline (transfer, copies, forgery, nesting on one key)
		//   K10 a guard cannot be taken apart into its holds
		//   D1/D2/D8 references and auto traits (who may touch the data, from where)
		"C01" => {
			let mut v = h1_pairs(prop);
			v.extend(owned_opacity_pairs(prop));
			v.extend(c14_subset(prop, &["K1-", "K3-", "K4-", "K6-", "K7-", "K9-key-carrying"]));
			v
		}
		"C02" => c15_subset(prop, &["D1-", "D1b-", "D2-", "D8-"]),
		"C03" => c14_subset(prop, &["K3-key-or-hold-carrier", "K6-", "K7-", "K10-"]),
		"C04" => {
			let mut v = h1_pairs(prop);
			v.extend(relabel(crate::tyeng::families_mutation_after_check(), prop));
			v
		}
		// C05: a hold is released by the thread that took it: the keyless hold types
		// over raw locks that forbid it are not `Send` (differential against std)
		"C05" => relabel(
			crate::tyeng::families_c15(&crate::tyeng::Subj::all())
				.into_iter()
				.filter(|p| p.family == "D8-auto-trait-Send" && ["MutexRef", "RwLockReadRef", "RwLockWriteRef", "PoisonRef", "LockGuard", "MutexGuard", "RwLockReadGuard", "RwLockWriteGuard", "PoisonGuard"].iter().any(|t| p.name.starts_with(t)))
				.collect(),
			prop,
		),
		"C08" => {
			let mut v: Vec<crate::tyeng::Pair> = crate::tyeng::families_mutation_after_check()
				.into_iter()
				.map(|mut p| {
					p.prop = "C08".into();
					p.family = "C08-member-list-fixed-after-sorting".into();
					p
				})
				.collect();
			v.extend(owned_opacity_pairs(prop));
			v.extend(h1_pairs(prop));
			v
		}
		"C09" => {
			let mut v = owned_opacity_pairs(prop);
			v.extend(h1_pairs(prop));
			v
		}
		"C13" => {
			let mut v = h1_pairs(prop);
			v.extend(relabel(crate::tyeng::families_mutation_after_check(), prop));
			v
		}
		"C15" => {
			let mut v = crate::tyeng::families_c15(&subjects);
			// "the constructors that skip the duplicate check require unsafe or owned
			// inputs": so does every route that changes a checked member list afterwards
			v.extend(crate::tyeng::families_mutation_after_check().into_iter().map(|mut p| {
				p.prop = "C15".into();
				p.family = "D9-checked-member-list-changed-from-safe-code".into();
				p
			}));
			if tier == Tier::Quick {
				// the scoped-closure escape (D3) depends on the signature of each
				// scoped function separately: every API variant in both tiers
				let have: std::collections::HashSet<String> = v.iter().map(|p| format!("{}|{}", p.family, p.name)).collect();
				v.extend(
					crate::tyeng::families_c15(&crate::tyeng::Subj::all_with_apis())
						.into_iter()
						.filter(|p| p.family.starts_with("D3-") && !have.contains(&format!("{}|{}", p.family, p.name))),
				);
			}
			// "constructors that skip the duplicate check ... require unsafe or owned inputs"
			v.extend(crate::tyeng::families_owned_lockable().into_iter().map(|mut p| {
				p.prop = "C15".into();
				p.family = "D6-borrowing-type-is-not-OwnedLockable".into();
				p
			}));
			v
		}
		"C07" => {
			let mut v = crate::tyeng::families_c07();
			v.extend(crate::tyeng::families_owned_lockable());
			v
		}
		_ => vec![],
	}
}

fn types_report(tc: &crate::tyeng::Toolchain, p: &crate::tyeng::Pair, want: bool) -> CaseReport {
	use crate::tyeng::PairOutcome;
	let out = crate::tyeng::judge(tc, p);
	let mut rep = CaseReport { fp: fp_str(&format!("{}|{}", p.family, p.name)), ..Default::default() };
	rep.labels.push(format!("types.family.{}", p.family));
	let prop: &'static str = match p.prop.as_str() {
		"C14" => "C14",
		"C15" => "C15",
		"C01" => "C01",
		"C06" => "C06",
		"C02" => "C02",
		"C03" => "C03",
		"C04" => "C04",
		"C05" => "C05",
		"C13" => "C13",
		"C08" => "C08",
		"C09" => "C09",
		"C10" => "C10",
		_ => "C07",
	};
	match &out {
		PairOutcome::Held { codes } => {
			rep.nontrivial = true;
			rep.labels.push("types.rejected_on_marked_line".into());
			for c in codes {
				rep.labels.push(format!("types.code.{c}"));
			}
		}
		PairOutcome::BothReject => {
			rep.nontrivial = true;
			rep.labels.push("types.d8.both_reject".into());
		}
		PairOutcome::StdAcceptsToo => {
			rep.labels.push("types.d8.std_accepts_too(not asserted)".into());
		}
		PairOutcome::Accepted => {
			rep.nontrivial = true;
			let short = p.name.split(" payload=").next().unwrap_or(&p.name).to_string();
			let sig = if p.std_offending.is_some() {
				format!("accepted-but-std-rejects|{}|{}", p.family, p.name)
			} else {
				format!("accepted|{}|{}", p.family, short)
			};
			rep.violations.push(Finding {
				prop,
				sig,
				detail: format!("the offending program of family {} ({}) compiles against the current tree", p.family, p.name),
				step: None,
				tid: 0,
			});
			rep.replay = Some(json!({"engine": "types", "pair": p}));
		}
		PairOutcome::GeneratorError(e) if p.family.len() > 2 && p.family.starts_with('S') && p.family.as_bytes()[1].is_ascii_digit() => {
			if std::env::var_os("HLV_DEBUG_TYPES").is_some() {
				eprintln!("S1 not expressible: {}: {}", p.name, e.chars().take(400).collect::<String>());
			}
			// a discovered method this template cannot call (ambiguous inference,
			// a trait that is not in scope): not expressible, nothing asserted
			rep.labels.push("types.surface.method_not_expressible".into());
		}
		PairOutcome::GeneratorError(e) => {
			rep.labels.push("types.generator_error".into());
			rep.inconclusive = Some(format!("generator error in {} / {}: {}", p.family, p.name, e.chars().take(300).collect::<String>()));
		}
	}
	if want && rep.nontrivial {
		rep.sample = Some(json!({"family": p.family, "name": p.name, "outcome": format!("{out:?}").chars().take(200).collect::<String>(), "twin": p.twin, "offending": p.offending}));
	}
	rep
}

pub fn types_campaign(ctx: &mut CheckCtx, prop: &str, tier: Tier, quick_n: u64) -> bool {
	let tc = match crate::tyeng::Toolchain::locate() {
		Ok(t) => t,
		Err(e) => {
			ctx.health_errors.push(format!("TYPES engine: {e}"));
			return false;
		}
	};
	let mut pairs = types_pairs_for(prop, tier);
	// API-surface-driven part: the methods are read from the tree under test
	if prop == "C15" || prop == "C14" {
		surface_pairs(ctx, prop, &mut pairs);
	}
	let total = pairs.len();
	// the product is small enough to be compiled completely in both tiers; the
	// thorough tier adds the API-variant axis (see tyeng::variants)
	let _ = quick_n;
	let _ = tier;
	let items: Vec<usize> = (0..total).collect();
	ctx.enumerate("types-full-product", items, |i, want| types_report(&tc, &pairs[*i], want));
	ctx.exhaustive = Some(true);
	ctx.extra.insert("programs_in_product".into(), json!(total));
	let ge = ctx.stats.labels.get("types.generator_error").copied().unwrap_or(0);
	if ge * 50 > ctx.stats.evaluations.max(1) {
		ctx.health_errors.push(format!("TYPES generator health: {ge} of {} pairs unusable: {:?}", ctx.stats.evaluations, ctx.stats.inconclusive_reasons.iter().take(3).collect::<Vec<_>>()));
	}
	tc.cleanup();
	true
}

fn relabel(v: Vec<crate::tyeng::Pair>, prop: &str) -> Vec<crate::tyeng::Pair> {
	v.into_iter()
		.map(|mut p| {
			p.prop = prop.into();
			p
		})
		.collect()
}

/// H1: a lock cannot be listed twice behind the compiler's back: borrowing and
/// shareable types are not `OwnedLockable`, and the constructors that skip the
/// run-time check take owned input only
fn h1_pairs(prop: &str) -> Vec<crate::tyeng::Pair> {
	let mut v = relabel(crate::tyeng::families_owned_lockable(), prop);
	v.extend(relabel(crate::tyeng::families_c07(), prop));
	v
}

fn c14_subset(prop: &str, prefixes: &[&str]) -> Vec<crate::tyeng::Pair> {
	relabel(crate::tyeng::families_c14(&crate::tyeng::Subj::all()).into_iter().filter(|p| prefixes.iter().any(|f| p.family.starts_with(f))).collect(), prop)
}

fn c15_subset(prop: &str, prefixes: &[&str]) -> Vec<crate::tyeng::Pair> {
	relabel(crate::tyeng::families_c15(&crate::tyeng::Subj::all()).into_iter().filter(|p| prefixes.iter().any(|f| p.family.starts_with(f))).collect(), prop)
}

/// D5: no shared access to the members of an owned collection (child, as_ref,
/// iter, `&c` iteration, fields)
fn owned_opacity_pairs(prop: &str) -> Vec<crate::tyeng::Pair> {
	crate::tyeng::families_c15(&crate::tyeng::Subj::all())
		.into_iter()
		.filter(|p| p.family.starts_with("D5-"))
		.map(|mut p| {
			p.prop = prop.into();
			p
		})
		.collect()
}

/// compile-time half of a run-time property: the pairs of `types_pairs_for(prop)`
pub fn types_half(ctx: &mut CheckCtx, prop: &str, tier: Tier, campaign: &str) {
	match crate::tyeng::Toolchain::locate() {
		Ok(tc) => {
			let mut pairs = types_pairs_for(prop, tier);
			if matches!(prop, "C08" | "C09" | "C10") {
				surface_pairs(ctx, prop, &mut pairs);
			}
			let items: Vec<usize> = (0..pairs.len()).collect();
			ctx.enumerate(campaign, items, |i, want| types_report(&tc, &pairs[*i], want));
			tc.cleanup();
		}
		Err(e) => ctx.health_errors.push(format!("TYPES engine: {e}")),
	}
}

/// Add the S1 family (generated from rustdoc's JSON of /repo) to `pairs`.
pub fn surface_pairs(ctx: &mut CheckCtx, prop: &str, pairs: &mut Vec<crate::tyeng::Pair>) {
	match crate::surface::rustdoc_json() {
		Ok(doc) => {
			let (ms, st) = crate::surface::methods(&doc);
			let n0 = pairs.len();
			if !matches!(prop, "C14" | "C02" | "C01" | "C08" | "C10") {
				pairs.extend(crate::surface::families_surface(prop, &ms));
			}
			if prop == "C10" {
				let (bp, seen) = crate::surface::families_surface_poisonable_bypass(prop, &doc);
				ctx.extra.insert("api_surface_poisonable".into(), json!({"functions_seen": seen, "pairs_generated": bp.len(), "names": bp.iter().map(|p| p.name.clone()).collect::<Vec<_>>()}));
				pairs.extend(bp);
			}
			if prop == "C07" {
				let (cp, seen) = crate::surface::families_surface_constructors(prop, &doc);
				ctx.extra.insert("api_surface_constructors".into(), json!({"constructors_seen": seen, "pairs_generated": cp.len(), "names": cp.iter().map(|p| p.name.clone()).collect::<Vec<_>>()}));
				pairs.extend(cp);
			}
			if prop == "C15" {
				let (kp, seen) = crate::surface::families_surface_keyless_data(prop, &doc);
				ctx.extra.insert("api_surface_keyless_data".into(), json!({"functions_seen": seen, "pairs_generated": kp.len(), "names": kp.iter().map(|p| p.name.clone()).collect::<Vec<_>>()}));
				pairs.extend(kp);
			}
			if prop == "C14" {
				let (lp, seen) = crate::surface::families_surface_key_lending(prop, &doc);
				ctx.extra.insert("api_surface_key_lending".into(), json!({"functions_seen": seen, "pairs_generated": lp.len(), "names": lp.iter().map(|p| p.name.clone()).collect::<Vec<_>>()}));
				pairs.extend(lp);
			}
			if matches!(prop, "C14" | "C02" | "C01" | "C08" | "C15") {
				let (shape_pairs, seen) = crate::surface::families_surface_shapes(prop, &doc);
				ctx.extra.insert("api_surface_shapes".into(), json!({"functions_seen": seen, "pairs_generated": shape_pairs.len(), "names": shape_pairs.iter().map(|p| p.name.clone()).collect::<Vec<_>>()}));
				pairs.extend(shape_pairs);
			}
			ctx.extra.insert(
				"api_surface".into(),
				json!({"source": "cargo +nightly rustdoc --output-format json on /repo's working tree", "hold_types": crate::surface::HOLD_TYPES, "methods_seen": st.methods_seen, "by_reference_and_reference_in_result": ms.len(), "skipped_by_value_or_extra_args": st.skipped_by_value_or_extra_args, "skipped_no_reference_in_result": st.skipped_no_reference_in_result, "pairs_generated": pairs.len() - n0, "methods": ms.iter().map(|m| format!("{}::{}", m.owner, m.name)).collect::<Vec<_>>()}),
			);
			if ms.len() < 8 && !matches!(prop, "C14" | "C02" | "C01" | "C08" | "C10") {
				ctx.health_errors.push(format!("API surface: only {} by-reference methods with a reference in their result were found on the hold types (Deref / AsRef alone are more)", ms.len()));
			}
		}
		Err(e) => ctx.health_errors.push(format!("API surface: {e}")),
	}
}

fn types_check(prop: &'static str, tier: Tier, seed: u64) -> i32 {
	let mut ctx = CheckCtx::new(prop, "exploration", tier, seed);
	ctx.assumptions = vec![
		"rustc's accept/reject verdict on a library crate is the ground truth for 'safe Rust accepts this program'".into(),
		"the rlib used is the one the check script just rebuilt from /repo's working tree".into(),
	];
	ctx.rule = match prop {
		"C14" => "TYPES: client programs generated from a grammar (lock kind x Poisonable x collection kind x container x escape route K1..K11: key moved/lent to another thread, locking through &ThreadKey, clone/copy/use-after-move, key forgery (struct literal, Keyable impls, sealed path), guard APIs given &mut key, nested scoped calls on one key, key used inside its own closure, private key fields of guards, sending key-holding guards, moving holds out of a collection guard before unlock, key-less holds through unsafe trait methods from safe code). Every case is a pair: a twin that must compile and an offending program that differs only inside the marked region; verdict by rustc against the current tree: twin accepted, offending rejected with every primary error span inside the marked region. Quick: the whole product with the blocking write API; thorough: x every acquiring API (try_lock, read, try_read and their scoped forms). Non-trivial = the twin compiled and the offending program got a verdict; distinct = (family, subject). Run-time half: the SEQ histories of C06 and C03 and the CONC programs of C03, read for 'a second key while one is alive' and 'the key is usable while the thread holds a lock' (non-trivial = an acquisition and >= 3 executed steps; CONC as in C03).".to_string(),
		_ => "TYPES: client programs generated from a grammar (lock kind x Poisonable x collection kind x container x route D1..D8: reference outliving a guard, guard outliving its lock, reference escaping a scoped closure, shared access into an owned collection, unsafe-only entry points from safe code, &mut/by-value access while a guard lives, auto traits). D1-D7 are twin/offending pairs judged by rustc on the marked region. D8 is differential against std: for every position (Mutex, RwLock, Poisonable, every guard and ref type, every collection over owned and borrowed members, LockGuard, PoisonGuard, ...) x payload (i32, Cell, Rc, raw pointer, MutexGuard, Arc<Cell>) x {Send, Sync}, whenever the std counterpart is rejected the happylock type must be rejected too. Quick: the whole product with the blocking write API; thorough: x every acquiring API (try_lock, read, try_read and their scoped forms). Non-trivial = the twin compiled and the offending program got a verdict (for D8: std rejected); distinct = (family, subject). Run-time half: the SEQ histories and CONC programs of C02 (held-at-use, complete holds inside closures, shadow-version continuity, no release of another thread's hold), read as 'data reached without a live hold'.".to_string(),
	};
	let quick_n = 320;
	types_campaign(&mut ctx, prop, tier, quick_n);
	match prop {
		"C14" => runtime_half(&mut ctx, prop, tier, &["C06", "C03"], "C03"),
		_ => {
			runtime_half(&mut ctx, prop, tier, &["C02"], "C02");
			// "constructors that skip the duplicate check require unsafe or owned
			// inputs": a checked constructor that lets a duplicate through IS such
			// a constructor, for a borrowed input, in safe code (C07's differential
			// against the duplicate model, acceptances only)
			let n = tier.pick(40_000, 800_000);
			ctx.search("runtime-half-checked-constructors-refuse-duplicates", n, 200, |bytes, want| {
				let mut rep = c07_random_eval(bytes, want);
				let keep = c15_from_c07(rep.violations.drain(..).collect());
				if keep.is_empty() {
					rep.replay = None;
				}
				rep.violations = keep;
				rep
			});
		}
	}
	ctx.finish()
}


/// one DROPS plan (also the body of the fuzz target)
pub fn c16_eval(bytes: &[u8], want: bool) -> CaseReport {
	let plan = crate::drops::gen_plan(&mut Src::new(bytes));
	let out = crate::drops::run_plan(&plan);
	let nontrivial = (!plan.writes.is_empty() && plan.n > 0 && plan.end != crate::drops::DEnd::Drop)
		|| matches!(plan.kind, crate::drops::DKind::BoxedRejected | crate::drops::DKind::RetryRejected);
	let replay = if out.findings.is_empty() { None } else { Some(json!({"engine": "drops", "plan": plan})) };
	CaseReport {
		violations: out.findings,
		nontrivial,
		fp: fp_str(&format!("{plan:?}")),
		labels: out.labels,
		sample: if want && nontrivial { Some(json!({"plan": plan})) } else { None },
		replay,
		..Default::default()
	}
}

fn c16(tier: Tier, seed: u64) -> i32 {
	let mut ctx = CheckCtx::new("C16", "exploration", tier, seed);
	ctx.assumptions = vec![
		"payloads count their drops in a per-scenario table; 'dropped exactly once' is read from that table after the scenario let go of everything".into(),
		"scenarios use happylock's default parking_lot raw locks (no lock instrumentation is needed for this property)".into(),
	];
	ctx.rule = "Scenario plans decoded from proptest byte vectors: leaf type (Mutex, RwLock, Poisonable<Mutex>) x container (Vec, Box<[_]>, arrays of 0..4, tuples of 1..3) x size 0..4 x construction path (Boxed new / from / try_new / new_ref, Owned new / from, Retrying new / from / try_new / new_ref, Ref new / try_new, FromIterator (collect) into Boxed / Owned / Retrying over Vec, and try_new REJECTING an input that owns locks next to a duplicated reference) x writes under lock (through collection guards and scoped closures, per position) x optional poisoning panic x destruction path (drop, into_child + into_inner of the container, into_inner, into_iter (+ into_inner of every lock), extend (Owned / Retrying over Vec) then into_inner, get_mut / child_mut then drop, by-reference collection then container get_mut / into_inner). Oracle: drop-counting payloads: every id exactly once when everything is gone (and exactly once right after a rejected try_new); get_mut / into_inner / into_child return (id, last written version) at every declared position. Non-trivial = a write under a lock followed by a consuming destructor or observer, or a rejected try_new with owned content; distinct = hash of the plan.".into();
	let n = tier.pick(600_000, 10_000_000);
	ctx.search("drop-once-and-round-trip", n, 40, |bytes, want| c16_eval(bytes, want));
	// "reflecting the last write made under a lock" with more than one writer:
	// the histories and programs of C02 (shadow versions, held-at-use, no
	// release of another thread's hold), read for this property
	runtime_half(&mut ctx, "C16", tier, &["C02"], "C02");
	ctx.require_label("c16.rejected_try_new_with_owned_content", 1000);
	ctx.require_label("c16.poisoned", 1000);
	ctx.require_label("c16.end.IntoChild", 1000);
	ctx.finish()
}


/// Explore ALL schedules of one program (stateless DFS over the choices at
/// branch points); `cap` bounds the number of executions.
pub fn exhaust_program(e: &ConcEval<'_>, case: &ConcCase, cap: usize, want: bool) -> CaseReport {
	let mut rep = CaseReport { fp: fp_str(&format!("{:?}{:?}", case.world, case.programs)), ..Default::default() };
	let mut stack: Vec<Vec<u8>> = vec![vec![]];
	let mut runs = 0usize;
	let mut complete = true;
	let t_start = std::time::Instant::now();
	let mut labels: std::collections::BTreeSet<String> = std::collections::BTreeSet::new();
	let mut max_branch = 0usize;
	while let Some(prefix) = stack.pop() {
		if runs >= cap {
			complete = false;
			break;
		}
		let mut c = case.clone();
		c.forced = Some(prefix.clone());
		c.schedule = vec![];
		let r = run_conc(&c, Opts { conc: true, ..Default::default() });
		runs += 1;
		if r.invalid.is_some() {
			return CaseReport { invalid: true, ..Default::default() };
		}
		let branches: Vec<(u8, u8)> = r.taken.iter().filter(|(_, k)| *k > 1).cloned().collect();
		max_branch = max_branch.max(branches.len());
		// children: flip every choice after the forced prefix, up to a depth
		// bound: two retrying collections can chase each other for ever under an
		// adversarial schedule, so the schedule tree of such programs is infinite;
		// beyond the bound the run continues run-to-block
		const DEPTH: usize = 40;
		if branches.len() > DEPTH {
			complete = false;
			labels.insert("conc.exhaustive.depth_bounded".into());
		}
		for j in prefix.len()..branches.len().min(DEPTH) {
			let (_, k) = branches[j];
			for a in 1..k {
				let mut p2: Vec<u8> = branches[..j].iter().map(|(i, _)| *i).collect();
				p2.push(a);
				stack.push(p2);
			}
		}
		let mut v = mine(e.prop, &r);
		if let Some(x) = e.extra {
			v.extend(x(&c, &r));
		}
		if (e.nontrivial)(&c, &r) {
			rep.extra_nontrivial.push(fp_str(&format!("{:?}{:?}{:?}", case.world, case.programs, r.taken)));
			if want && rep.sample.is_none() {
				rep.sample = Some(sample_conc(&c, &r));
				rep.nontrivial = true;
			}
		}
		if r.waited {
			labels.insert("conc.waited".into());
		}
		if let Some(i) = r.inconclusive.clone() {
			if std::env::var_os("HLV_DEBUG_SLOW").is_some() && rep.inconclusive.is_none() {
				eprintln!("INCONCLUSIVE run ({i}): {}", serde_json::to_string(&c).unwrap_or_default());
			}
			rep.inconclusive = Some(i);
		}
		if !v.is_empty() && rep.replay.is_none() {
			rep.replay = Some(json!({"engine": "conc", "opts": opts_json(&Opts { conc: true, ..Default::default() }), "case": c, "trace": r.trace, "world": describe_world(&case.world)}));
		}
		rep.violations.extend(v);
		if !rep.violations.is_empty() {
			break;
		}
	}
	if std::env::var_os("HLV_DEBUG_SLOW").is_some() && t_start.elapsed().as_secs_f64() > 2.0 {
		eprintln!("SLOW program: {:.1}s, {runs} runs, max_branch {max_branch}, complete={complete}: {:?} world={:?}", t_start.elapsed().as_secs_f64(), case.programs, describe_world(&case.world));
	}
	rep.extra_evals = runs.saturating_sub(1) as u64;
	labels.insert(if complete { "conc.exhaustive.program_fully_enumerated".into() } else { "conc.exhaustive.capped".into() });
	labels.insert(format!("conc.exhaustive.branch_points<={}", ((max_branch + 3) / 4) * 4));
	for c in &case.world.colls {
		labels.insert(format!("world.kind.{:?}", c.kind));
	}
	rep.labels = labels.into_iter().collect();
	rep
}

pub fn tiny_conc_cfg() -> ConcCfg {
	ConcCfg {
		world: WorldCfg { min_leaves: 2, max_leaves: 3, min_colls: 1, max_colls: 3, max_members: 3, p_byval: 40, p_nested: 50, p_wrap: 20, ..WorldCfg::default() },
		min_threads: 2,
		max_threads: 2,
		max_acq: 1,
		p_yield: 0,
		p_try: 40,
		max_sched: 0,
		..ConcCfg::default()
	}
}

/// generator configuration and interpreter options of the SEQ campaign of a property
/// (shared by the proptest runner and the libFuzzer targets)
pub fn seq_profile(prop: &str) -> Option<(SeqCfg, Opts)> {
	match prop {
		"C06" => {
			let mut cfg = seq_cfg_general();
			cfg.max_steps = 16;
			cfg.w.get_key = 10;
			cfg.w.drop_key = 3;
			cfg.w.forget_key = 1;
			cfg.w.p_forget_guard = 20;
			cfg.w.p_panic = 50;
			cfg.w.p_probe_in_body = 150;
			cfg.w.p_unwinding_drop = 40;
			cfg.w.p_owned_key = 128;
			cfg.w.park_key = 3;
			cfg.w.probe_key_many = 3;
			cfg.world.max_colls = 3;
			let opts = Opts::default();
			Some((cfg, opts))
		}
		"C13" => {
			let mut cfg = seq_cfg_general();
			cfg.max_threads = 1;
			cfg.max_steps = 14;
			cfg.w = StepW {
				get_key: 8,
				acquire: 10,
				scoped: 8,
				guard_ops: 2,
				release: 12,
				phantom_hold: 9,
				phantom_release: 3,
				p_try: 235,
				p_read: 120,
				..StepW::default()
			};
			let opts = Opts { quiescent: true, ..Default::default() };
			Some((cfg, opts))
		}
		"C04" => {
			let mut cfg = seq_cfg_general();
			cfg.w.kill = 2;
			cfg.w.phantom_hold = 5;
			cfg.w.p_try = 150;
			cfg.w.p_transient = 128;
			let opts = Opts { quiescent: false, ..Default::default() };
			Some((cfg, opts))
		}
		"C03" => {
			let mut cfg = seq_cfg_general();
			cfg.w.kill = 2;
			cfg.w.p_unwinding_drop = 30;
			cfg.w.p_panic = 40;
			cfg.w.phantom_hold = 4;
			cfg.w.p_unlock_fn = 150;
			cfg.w.p_transient = 128;
			let opts = Opts::default();
			Some((cfg, opts))
		}
		"C05" => {
			let mut cfg = seq_cfg_general();
			cfg.w.kill = 2;
			cfg.w.p_unwinding_drop = 30;
			cfg.w.phantom_hold = 4;
			cfg.w.p_transient = 128;
			cfg.w.p_panic = 30;
			cfg.w.p_forget_guard = 10;
			cfg.w.debug = 3;
			cfg.w.p_debug_in_body = 50;
			let opts = Opts::default();
			Some((cfg, opts))
		}
		"C17" => {
			let mut cfg = seq_cfg_general();
			cfg.max_steps = 16;
			cfg.w = StepW {
				phantom_hold: 6,
				is_poisoned: 4,
				clear_poison: 2,
				debug: 12,
				accessors: 4,
				temp_coll: 6,
				owned_temp: 6,
				p_debug_in_body: 200,
				release: 5,
				..StepW::default()
			};
			let opts = Opts { quiescent: true, ..Default::default() };
			Some((cfg, opts))
		}
		"C08" => {
			let mut cfg = seq_cfg_general();
			cfg.max_threads = 1;
			cfg.max_steps = 16;
			cfg.world.min_colls = 2;
			cfg.world.max_colls = 5;
			cfg.world.min_leaves = 2;
			cfg.world.p_copy_permuted = 150;
			cfg.world.p_byval = 50;
			// zero-sized members (empty owned collections at the address of a
			// leaf) take part in the sort without being locks
			cfg.world.p_zst_member = 30;
			// mixed ownership: a lock stored inside the collection's own
			// allocation next to references to locks elsewhere
			cfg.world.p_own_member = 45;
			cfg.w = StepW { phantom_hold: 0, phantom_release: 0, p_try: 20, p_read: 100, p_coll_target: 250, guard_ops: 1, ..StepW::default() };
			let opts = Opts::default();
			Some((cfg, opts))
		}
		"C02" => {
			let mut cfg = seq_cfg_general();
			cfg.max_steps = 14;
			cfg.w.guard_ops = 12;
			cfg.w.phantom_hold = 3;
			// killed members: an acquisition that unwinds half-way must not touch
			// the holds of others
			cfg.w.kill = 1;
			cfg.w.p_panic = 30;
			cfg.w.p_try = 60;
			let opts = Opts::default();
			Some((cfg, opts))
		}
		"C10" => {
			let mut cfg = seq_cfg_general();
			cfg.max_steps = 18;
			cfg.world.p_wrap = 170;
			cfg.world.p_inline_wrap = 90;
			cfg.world.p_pois_coll = 110;
			cfg.w = StepW {
				guard_ops: 12,
				p_panic: 90,
				p_unwinding_drop: 40,
				debug: 2,
				is_poisoned: 6,
				clear_poison: 3,
				phantom_hold: 1,
				p_try: 90,
				p_forget_guard: 0,
				forget_key: 0,
				..StepW::default()
			};
			let opts = Opts { quiescent: true, ..Default::default() };
			Some((cfg, opts))
		}
		"C07" => {
			// checked constructors called in the middle of a history: over members
			// that are poisoned, killed or held at that moment
			let mut cfg = seq_cfg_general();
			cfg.max_steps = 14;
			cfg.world.p_wrap = 150;
			cfg.world.p_inline_wrap = 60;
			cfg.world.p_pois_coll = 80;
			cfg.w = StepW { guard_ops: 6, p_panic: 110, kill: 2, temp_coll: 14, phantom_hold: 2, clear_poison: 1, p_forget_guard: 0, forget_key: 0, ..StepW::default() };
			let opts = Opts::default();
			Some((cfg, opts))
		}
		"C09" => {
			// retrying collections against phantom holders that let go as soon as
			// the thread under test blocks on them (every blocking request is a
			// wait), also from destructors during an unwinding
			let mut cfg = seq_cfg_general();
			cfg.world.kinds = vec![KindTag::Retry, KindTag::Retry, KindTag::Boxed, KindTag::Owned];
			cfg.world.min_colls = 1;
			cfg.w.phantom_hold = 8;
			cfg.w.p_transient = 230;
			cfg.w.p_try = 40;
			cfg.w.p_unwinding_drop = 60;
			cfg.w.p_panic = 30;
			let opts = Opts::default();
			Some((cfg, opts))
		}
		"C11" => {
			let mut cfg = seq_cfg_general();
			cfg.w.p_panic = 140;
			cfg.w.guard_ops = 12;
			cfg.w.phantom_hold = 1;
			cfg.w.p_unwinding_drop = 50;
			cfg.w.kill = 1;
			cfg.w.debug = 2;
			let opts = Opts::default();
			Some((cfg, opts))
		}
		_ => None,
	}
}

/// generator configuration of the CONC campaign of a property
pub fn conc_profile(prop: &str) -> Option<ConcCfg> {
	match prop {
		"C01" => {
			let mut cfg = ConcCfg { min_threads: 1, ..ConcCfg::default() };
			// some member lists keep their duplicates: the checked constructor must
			// reject them, otherwise one thread waits for a lock it holds itself
			cfg.world.p_allow_dup = 50;
			// a lock killed (by anybody) while it is held or waited for: the
			// holder still lets go, a thread already waiting still gets it
			cfg.p_kill_step = 25;
			Some(cfg)
		}
		"C02" => {
			// other threads also format the locks: a non-acquiring operation that
			// lets go of somebody's hold ends that thread's exclusion
			let mut cfg = ConcCfg::default();
			cfg.p_debug_step = 50;
			cfg.p_debug_in_body = 30;
			Some(cfg)
		}
		"C05" | "C04" | "C03" => Some(ConcCfg { p_kill_step: 12, ..ConcCfg::default() }),
		"C08" => Some(ConcCfg::default()),
		"C10" => {
			let mut cfg = ConcCfg::default();
			cfg.world.p_wrap = 170;
			cfg.world.p_inline_wrap = 90;
			cfg.world.p_pois_coll = 110;
			cfg.world.min_colls = 1;
			cfg.p_panic = 80;
			cfg.p_coll_target = 150;
			Some(cfg)
		}
		"C09" => {
			let mut cfg = ConcCfg::default();
			cfg.retry_first = true;
			cfg.world.min_colls = 2;
			cfg.p_try = 20;
			// long periodic schedules: two retrying acquisitions chase each other
			// for dozens of rounds before the run-to-block suffix lets them finish
			cfg.p_pattern_sched = 70;
			cfg.pattern_len = 240;
			Some(cfg)
		}
		"C17" => {
			// `{:?}` of targets between and inside sections while other threads
			// take and release the same locks
			let mut cfg = ConcCfg::default();
			cfg.p_debug_step = 200;
			cfg.p_debug_in_body = 90;
			cfg.max_acq = 2;
			Some(cfg)
		}
		"C11" => {
			let mut cfg = ConcCfg::default();
			cfg.p_panic = 110;
			Some(cfg)
		}
		_ => None,
	}
}

/// All findings of `prop` in one SEQ run (engine findings + post-hoc oracles).
pub fn seq_violations(prop: &str, case: &SeqCase, r: &RunResult) -> Vec<Finding> {
	let mut f = mine(prop, r);
	f.extend(post_findings(prop, &AnyCase::Seq(case.clone()), r));
	f
}

pub fn conc_violations(prop: &str, case: &ConcCase, r: &RunResult) -> Vec<Finding> {
	let mut f = mine(prop, r);
	f.extend(post_findings(prop, &AnyCase::Conc(case.clone()), r));
	match prop {
		"C11" if has(r, "panic_in_section") => f.extend(
			r.findings
				.iter()
				.filter(|x| x.prop == "C01" && (x.sig == "deadlock" || x.sig == "no-progress-cycle"))
				.map(|x| Finding { prop: "C11", sig: format!("waiters-stuck-after-panic|{}", x.sig), ..x.clone() }),
		),
		"C09" => f.extend(
			r.findings
				.iter()
				.filter(|x| x.prop == "C01" && (x.sig == "deadlock" || x.sig == "no-progress-cycle"))
				.map(|x| Finding { prop: "C09", sig: format!("does-not-complete|{}", x.sig), ..x.clone() }),
		),
		_ => {}
	}
	f
}

/// replay file written by a libFuzzer target (same format as the proptest runner's)
pub fn write_fuzz_replay(prop: &str, fd: &Finding, case: Value) -> String {
	let dir = verif_root().join("replays");
	let _ = std::fs::create_dir_all(&dir);
	let path = dir.join(format!("{prop}-fuzz-{:016x}.json", fp_str(&format!("{}{}", fd.sig, case))));
	let doc = json!({"property": prop, "signature": fd.sig, "finding_property": fd.prop, "detail": fd.detail, "step": fd.step, "tid": fd.tid, "case": case, "found_by": "libFuzzer"});
	let _ = std::fs::write(&path, serde_json::to_string_pretty(&doc).unwrap());
	path.display().to_string()
}

/// Fuzz entry for the properties whose campaign is not a plain SEQ / CONC
/// profile: the same per-case evaluator the proptest runner uses.
pub fn fuzz_eval(prop: &str, bytes: &[u8]) -> Option<CaseReport> {
	match prop {
		"C07" => Some(c07_random_eval(bytes, false)),
		"C12" => Some(c12_eval(bytes, false)),
		"C16" => Some(c16_eval(bytes, false)),
		_ => None,
	}
}
