//! Decoders: flat choice streams (`&[u8]`) -> cases.  Every decision is
//! `byte * n >> 8` (monotone: smaller bytes give simpler choices, an exhausted
//! stream gives 0), so proptest's shrinking of the byte vector and libFuzzer's
//! mutations both act on structure.

use crate::case::*;
use crate::exec::{Lid, Tid};
use crate::world::*;

pub struct Src<'a> {
	b: &'a [u8],
	i: usize,
}

impl<'a> Src<'a> {
	pub fn new(b: &'a [u8]) -> Src<'a> {
		Src { b, i: 0 }
	}
	pub fn byte(&mut self) -> u8 {
		let v = self.b.get(self.i).copied().unwrap_or(0);
		self.i += 1;
		v
	}
	/// 0..n (0 when n == 0)
	pub fn pick(&mut self, n: usize) -> usize {
		if n <= 1 {
			// still consume a byte so that positions stay aligned across choices
			let _ = self.byte();
			return 0;
		}
		(self.byte() as usize * n) >> 8
	}
	pub fn chance(&mut self, p: u8) -> bool {
		// p/256; byte 0 => false for p < 255 so that zero bytes mean "simple"
		let b = self.byte();
		(255 - b) < p
	}
	pub fn rest(&mut self) -> Vec<u8> {
		let r = self.b.get(self.i..).map(|s| s.to_vec()).unwrap_or_default();
		self.i = self.b.len();
		r
	}
	pub fn exhausted(&self) -> bool {
		self.i >= self.b.len()
	}
	/// weighted choice; weights of 0 are never chosen; returns index
	pub fn weighted(&mut self, w: &[u32]) -> Option<usize> {
		let sum: u32 = w.iter().sum();
		if sum == 0 {
			let _ = self.byte();
			return None;
		}
		let x = ((self.byte() as u32) * sum) >> 8;
		let mut acc = 0;
		for (i, wi) in w.iter().enumerate() {
			acc += wi;
			if x < acc {
				return Some(i);
			}
		}
		w.iter().rposition(|x| *x > 0)
	}
}

#[derive(Clone, Debug)]
pub struct WorldCfg {
	pub min_leaves: usize,
	pub max_leaves: usize,
	pub p_mutex: u8,
	pub p_wrap: u8,
	pub min_colls: usize,
	pub max_colls: usize,
	pub p_byval: u8,
	pub p_nested: u8,
	pub p_inline_wrap: u8,
	pub p_pois_coll: u8,
	pub p_copy_permuted: u8,
	/// chance that a by-reference member is an empty (zero-sized) owned collection
	/// located at the address of some leaf
	pub p_zst_member: u8,
	/// chance that a by-reference collection is built as K::try_new(&list)
	pub p_try_new_ref: u8,
	/// chance that a by-reference member list gets a lock stored by value
	pub p_own_member: u8,
	pub max_members: usize,
	pub allow_dups: bool,
	/// chance (per by-reference collection) that duplicates are left in even when
	/// `allow_dups` is false: the checked constructor must then reject it
	pub p_allow_dup: u8,
	/// only these kinds (empty = all)
	pub kinds: Vec<KindTag>,
	/// only Vec containers (cheaper, everything nestable)
	pub vec_only: bool,
}

impl Default for WorldCfg {
	fn default() -> Self {
		WorldCfg {
			min_leaves: 1,
			max_leaves: 5,
			p_mutex: 70,
			p_wrap: 60,
			min_colls: 0,
			max_colls: 4,
			p_byval: 80,
			p_nested: 90,
			p_inline_wrap: 30,
			p_pois_coll: 30,
			p_copy_permuted: 60,
			p_zst_member: 0,
			p_try_new_ref: 40,
			p_own_member: 0,
			max_members: 5,
			allow_dups: false,
			p_allow_dup: 0,
			kinds: vec![],
			vec_only: false,
		}
	}
}

fn gen_leaf(src: &mut Src<'_>, cfg: &WorldCfg) -> LeafDecl {
	let ty = if src.chance(cfg.p_mutex) { LeafTy::M } else { LeafTy::R };
	let wraps = if src.chance(cfg.p_wrap) {
		if src.chance(60) {
			2
		} else {
			1
		}
	} else {
		0
	};
	LeafDecl { ty, wraps }
}

fn gen_cont(src: &mut Src<'_>, cfg: &WorldCfg) -> Cont {
	if cfg.vec_only {
		let _ = src.byte();
		return Cont::Vec;
	}
	match src.weighted(&[5, 2, 3, 3]).unwrap_or(0) {
		0 => Cont::Vec,
		1 => Cont::BoxSlice,
		2 => Cont::Array,
		_ => Cont::Tuple,
	}
}

fn cont_limits(c: Cont) -> (usize, usize) {
	match c {
		Cont::Vec | Cont::BoxSlice => (0, 7),
		Cont::Array => (0, 4),
		Cont::Tuple => (1, 7),
	}
}

fn gen_ocoll(src: &mut Src<'_>, cfg: &WorldCfg, depth: usize) -> OCollSpec {
	let kind = match src.weighted(&[5, 2, 2]).unwrap_or(0) {
		0 => KindTag::Owned,
		1 => KindTag::Boxed,
		_ => KindTag::Retry,
	};
	let pois = kind == KindTag::Owned && src.chance(cfg.p_pois_coll);
	let n = src.pick(4);
	let members = (0..n).map(|_| gen_omember(src, cfg, depth + 1)).collect();
	OCollSpec { kind, pois, members }
}

fn gen_omember(src: &mut Src<'_>, cfg: &WorldCfg, depth: usize) -> OMemberSpec {
	if depth < 2 && src.chance(cfg.p_nested / 2) {
		OMemberSpec::Coll(gen_ocoll(src, cfg, depth))
	} else {
		OMemberSpec::Leaf(gen_leaf(src, cfg))
	}
}

fn kind_allowed(cfg: &WorldCfg, k: KindTag) -> bool {
	cfg.kinds.is_empty() || cfg.kinds.contains(&k)
}

pub fn gen_world(src: &mut Src<'_>, cfg: &WorldCfg) -> WorldSpec {
	let nl = cfg.min_leaves + src.pick(cfg.max_leaves - cfg.min_leaves + 1);
	let mut w = WorldSpec { leaves: (0..nl).map(|_| gen_leaf(src, cfg)).collect(), colls: vec![], layout: vec![] };
	let nc = cfg.min_colls + src.pick(cfg.max_colls - cfg.min_colls + 1);
	for ci in 0..nc {
		let byval = src.chance(cfg.p_byval);
		let cont = gen_cont(src, cfg);
		let (lo, hi) = cont_limits(cont);
		let hi = hi.min(cfg.max_members.max(lo));
		if byval {
			let kinds: Vec<KindTag> = [KindTag::Owned, KindTag::Boxed, KindTag::Retry, KindTag::Ref]
				.into_iter()
				.filter(|k| kind_allowed(cfg, *k))
				.collect();
			if kinds.is_empty() {
				continue;
			}
			let kind = kinds[src.pick(kinds.len())];
			let ctor = match kind {
				KindTag::Owned => Ctor::New,
				KindTag::Ref => {
					if src.chance(100) {
						Ctor::TryNew
					} else {
						Ctor::New
					}
				}
				_ => match src.pick(3) {
					0 => Ctor::New,
					1 => Ctor::TryNew,
					_ => Ctor::NewRef,
				},
			};
			let n = lo + src.pick((hi.min(4)).saturating_sub(lo) + 1);
			let members = (0..n).map(|_| gen_omember(src, cfg, 0)).collect();
			let pois = cont == Cont::Vec && kind == KindTag::Owned && src.chance(cfg.p_pois_coll);
			w.colls.push(CollSpec { kind, ctor, cont, content: Content::ByVal(members), pois });
			continue;
		}
		let kinds: Vec<KindTag> =
			[KindTag::Boxed, KindTag::Retry, KindTag::Ref].into_iter().filter(|k| kind_allowed(cfg, *k)).collect();
		if kinds.is_empty() {
			continue;
		}
		let kind = kinds[src.pick(kinds.len())];
		let pois = cont == Cont::Vec && src.chance(cfg.p_pois_coll);
		let mut cand_seq: Vec<MemberSpec> = Vec::new();
		// copy an earlier by-reference member list in a different arrangement
		// (or the by-value members of an earlier collection, reached through it)
		let earlier: Vec<usize> = (0..ci.min(w.colls.len()))
			.filter(|j| match &w.colls[*j].content {
				Content::ByRef(m) => m.len() >= 2,
				Content::ByVal(m) => m.len() >= 2 && Sem::inner_accessible(&w.colls[*j]),
			})
			.collect();
		if !earlier.is_empty() && src.chance(cfg.p_copy_permuted) {
			let j = earlier[src.pick(earlier.len())];
			let as_refs: Option<Vec<MemberSpec>> = match &w.colls[j].content {
				Content::ByRef(m) => Some(m.clone()),
				Content::ByVal(m) => Some((0..m.len()).map(|k| MemberSpec::Inner(j, k)).collect()),
			};
			if let Some(m) = &as_refs {
				// a lock the earlier collection stores by value is the same lock
				// only when it is reached through that collection
				let accessible = !w.colls[j].pois;
				let mut m: Vec<MemberSpec> = m
					.iter()
					.enumerate()
					.filter_map(|(k, x)| match x {
						MemberSpec::Own(_) if accessible => Some(MemberSpec::Inner(j, k)),
						MemberSpec::Own(_) => None,
						x => Some(x.clone()),
					})
					.collect();
				let mut out = Vec::new();
				while !m.is_empty() {
					// small bytes pick from the back: the all-zero stream reverses the list
					let k = m.len() - 1 - src.pick(m.len());
					out.push(m.remove(k));
				}
				while out.len() > hi {
					out.pop();
				}
				while out.len() > lo.max(1) && src.chance(40) {
					out.pop();
				}
				// sometimes add one more member
				if out.len() < hi && src.chance(60) && !w.leaves.is_empty() {
					out.push(MemberSpec::Leaf(src.pick(w.leaves.len())));
				}
				cand_seq = out;
			}
		} else {
			let n = lo + src.pick(hi - lo + 1);
			for _ in 0..n {
				let mut cands: Vec<MemberSpec> = Vec::new();
				if src.chance(cfg.p_nested) {
					for j in 0..w.colls.len() {
						if Sem::nestable(&w.colls[j]) {
							cands.push(MemberSpec::Coll(j));
						}
						if Sem::inner_accessible(&w.colls[j]) {
							if let Content::ByVal(ms) = &w.colls[j].content {
								for k in 0..ms.len() {
									cands.push(MemberSpec::Inner(j, k));
								}
							}
						}
						if let Content::ByRef(ms) = &w.colls[j].content {
							for k in 0..ms.len() {
								if Sem::inner_member_accessible(&w.colls[j], k) {
									cands.push(MemberSpec::Inner(j, k));
								}
							}
						}
					}
				}
				if cands.is_empty() {
					let inline_wrap = src.chance(cfg.p_inline_wrap);
					for (i, l) in w.leaves.iter().enumerate() {
						if inline_wrap && l.wraps == 0 {
							cands.push(MemberSpec::Wrap(i));
						} else {
							cands.push(MemberSpec::Leaf(i));
						}
					}
				}
				if cands.is_empty() {
					continue;
				}
				if cfg.p_own_member > 0 && src.chance(cfg.p_own_member) {
					cand_seq.push(MemberSpec::Own(gen_leaf(src, cfg)));
					continue;
				}
				if cfg.p_zst_member > 0 && !w.leaves.is_empty() && src.chance(cfg.p_zst_member) {
					cand_seq.push(MemberSpec::EmptyOwnedAt(src.pick(w.leaves.len())));
					continue;
				}
				let k = src.pick(cands.len());
				cand_seq.push(cands[k].clone());
			}
		}
		let mut members: Vec<MemberSpec> = Vec::new();
		let keep_dups = cfg.allow_dups || src.chance(cfg.p_allow_dup);
		for m in cand_seq {
			members.push(m);
			if !keep_dups {
				let mut trial = w.clone();
				trial.colls.push(CollSpec {
					kind,
					ctor: Ctor::TryNew,
					cont: Cont::Vec,
					content: Content::ByRef(members.clone()),
					pois: false,
				});
				let bad = Sem::valid(&trial).is_err() || Sem::new(&trial).has_duplicate(trial.colls.len() - 1);
				if bad {
					members.pop();
				}
			}
		}
		let n = members.len();
		// the checked constructor may be handed the list itself or a reference to it
		let ctor = if kind != KindTag::Ref && !pois && src.chance(cfg.p_try_new_ref) { Ctor::TryNewRef } else { Ctor::TryNew };
		let mut spec = CollSpec { kind, ctor, cont, content: Content::ByRef(members), pois };
		let (lo, hi) = cont_limits(spec.cont);
		if n < lo || n > hi {
			spec.cont = Cont::Vec;
		}
		let mut trial = w.clone();
		trial.colls.push(spec.clone());
		if Sem::valid(&trial).is_ok() {
			w.colls.push(spec);
		} else {
			spec.pois = false;
			spec.cont = Cont::Vec;
			let mut trial = w.clone();
			trial.colls.push(spec.clone());
			if Sem::valid(&trial).is_ok() {
				w.colls.push(spec);
			}
		}
	}
	// heap placement of by-value members (only matters when there are any)
	let nl = src.pick(7);
	w.layout = (0..nl).map(|_| src.byte()).collect();
	w
}

// ---------------------------------------------------------------------------
// programs

#[derive(Clone, Debug)]
pub struct StepW {
	pub get_key: u32,
	pub drop_key: u32,
	pub forget_key: u32,
	pub acquire: u32,
	pub scoped: u32,
	pub guard_ops: u32,
	pub release: u32,
	pub phantom_hold: u32,
	pub phantom_release: u32,
	pub is_poisoned: u32,
	pub clear_poison: u32,
	pub debug: u32,
	pub accessors: u32,
	pub temp_coll: u32,
	pub kill: u32,
	pub park_key: u32,
	pub probe_key_many: u32,
	pub owned_temp: u32,
	pub p_try: u8,
	pub p_read: u8,
	pub p_owned_key: u8,
	pub p_panic: u8,
	pub p_forget_guard: u8,
	pub p_unlock_fn: u8,
	pub p_debug_in_body: u8,
	pub p_probe_in_body: u8,
	pub p_yield: u8,
	pub p_coll_target: u8,
	pub p_transient: u8,
	/// chance that a scoped call is made from a destructor during an unwinding
	pub p_unwinding_drop: u8,
}

impl Default for StepW {
	fn default() -> Self {
		StepW {
			get_key: 6,
			drop_key: 1,
			forget_key: 0,
			acquire: 8,
			scoped: 8,
			guard_ops: 6,
			release: 10,
			phantom_hold: 3,
			phantom_release: 2,
			is_poisoned: 0,
			clear_poison: 0,
			debug: 0,
			accessors: 0,
			temp_coll: 0,
			kill: 0,
			park_key: 0,
			probe_key_many: 0,
			owned_temp: 0,
			p_try: 110,
			p_read: 100,
			p_owned_key: 100,
			p_panic: 0,
			p_forget_guard: 0,
			p_unlock_fn: 120,
			p_debug_in_body: 0,
			p_probe_in_body: 40,
			p_yield: 0,
			p_coll_target: 190,
			p_transient: 0,
			p_unwinding_drop: 0,
		}
	}
}

#[derive(Clone, Debug, Default)]
pub struct SeqCfg {
	pub world: WorldCfg,
	pub w: StepW,
	pub max_steps: usize,
	pub max_threads: usize,
}

#[derive(Clone, Copy, Default)]
struct TSt {
	key: bool,
	guard: bool,
	lost: bool,
}

pub fn all_targets(w: &WorldSpec) -> Vec<TargetRef> {
	let mut v: Vec<TargetRef> = (0..w.leaves.len()).map(TargetRef::Leaf).collect();
	v.extend((0..w.colls.len()).map(TargetRef::Coll));
	v
}

fn gen_target(src: &mut Src<'_>, w: &WorldSpec, p_coll: u8) -> TargetRef {
	if !w.colls.is_empty() && src.chance(p_coll) {
		TargetRef::Coll(src.pick(w.colls.len()))
	} else if !w.leaves.is_empty() {
		TargetRef::Leaf(src.pick(w.leaves.len()))
	} else {
		TargetRef::Coll(0)
	}
}

fn gen_body(src: &mut Src<'_>, w: &WorldSpec, sw: &StepW, guard: bool) -> Vec<BodyOp> {
	let mut ops = vec![BodyOp::Touch];
	if src.chance(sw.p_yield) {
		ops.push(BodyOp::Yield);
		ops.push(BodyOp::Touch);
	}
	if src.chance(sw.p_probe_in_body) {
		ops.push(BodyOp::ProbeKey);
	}
	if src.chance(sw.p_debug_in_body) {
		if guard && src.chance(128) {
			ops.push(BodyOp::DebugGuard);
		} else {
			ops.push(BodyOp::DebugTarget(gen_target(src, w, sw.p_coll_target)));
		}
	}
	if src.chance(sw.p_panic) {
		ops.push(BodyOp::Panic);
	}
	ops
}

pub fn gen_member_list(src: &mut Src<'_>, w: &WorldSpec, maxn: usize) -> Vec<MemberSpec> {
	let n = src.pick(maxn + 1);
	let mut cands: Vec<MemberSpec> = Vec::new();
	for (i, l) in w.leaves.iter().enumerate() {
		cands.push(MemberSpec::Leaf(i));
		if l.wraps == 0 {
			cands.push(MemberSpec::Wrap(i));
		}
	}
	for j in 0..w.colls.len() {
		if Sem::nestable(&w.colls[j]) {
			cands.push(MemberSpec::Coll(j));
		}
		if Sem::inner_accessible(&w.colls[j]) {
			if let Content::ByVal(ms) = &w.colls[j].content {
				for k in 0..ms.len() {
					cands.push(MemberSpec::Inner(j, k));
				}
			}
		}
	}
	if cands.is_empty() {
		return vec![];
	}
	(0..n).map(|_| cands[src.pick(cands.len())].clone()).collect()
}

pub fn gen_seq(src: &mut Src<'_>, cfg: &SeqCfg) -> SeqCase {
	let world = gen_world(src, &cfg.world);
	let nthreads = 1 + src.pick(cfg.max_threads.max(1));
	let nsteps = src.pick(cfg.max_steps + 1);
	let sem_nlocks = Sem::new(&world).nlocks;
	let mut st = vec![TSt::default(); nthreads];
	let mut steps: Vec<(Tid, Step)> = Vec::new();
	let sw = &cfg.w;
	let mut phantoms: Vec<Lid> = Vec::new();
	for _ in 0..nsteps {
		let t = if nthreads > 1 { src.pick(nthreads) } else { 0 };
		let s = st[t];
		let free = !s.key && !s.guard;
		let weights = [
			if free { sw.get_key } else { sw.get_key / 6 },
			if s.key { sw.drop_key } else { 0 },
			if s.key { sw.forget_key } else { 0 },
			if s.key { sw.acquire } else { 0 },
			if s.key { sw.scoped } else { 0 },
			if s.guard { sw.guard_ops } else { 0 },
			if s.guard { sw.release } else { 0 },
			sw.phantom_hold,
			if phantoms.is_empty() { 0 } else { sw.phantom_release },
			sw.is_poisoned,
			sw.clear_poison,
			sw.debug,
			sw.accessors,
			sw.temp_coll,
			if world.leaves.is_empty() { 0 } else { sw.kill },
			if s.key { sw.park_key } else { 0 },
			if s.key || s.guard || s.lost { sw.probe_key_many } else { 0 },
			if s.key { sw.owned_temp } else { 0 },
		];
		let Some(k) = src.weighted(&weights) else { continue };
		let step = match k {
			0 => {
				if !s.lost && !s.guard {
					st[t].key = true;
				}
				if src.chance(sw.p_unwinding_drop) {
					Step::UnwindingDrop { inner: Box::new(Step::GetKey) }
				} else {
					Step::GetKey
				}
			}
			1 => {
				st[t].key = false;
				Step::DropKey
			}
			2 => {
				st[t].key = false;
				st[t].lost = true;
				Step::ForgetKey
			}
			3 => {
				let target = gen_target(src, &world, sw.p_coll_target);
				let try_ = src.chance(sw.p_try);
				let read = src.chance(sw.p_read);
				// assume success (the interpreter skips what does not apply)
				st[t].key = false;
				st[t].guard = true;
				Step::Acquire { target, read, try_ }
			}
			4 => {
				let target = gen_target(src, &world, sw.p_coll_target);
				let try_ = src.chance(sw.p_try);
				let read = src.chance(sw.p_read);
				let owned_key = src.chance(sw.p_owned_key);
				let body = gen_body(src, &world, sw, false);
				if owned_key {
					st[t].key = false;
				}
				let sc = Step::Scoped { target, read, try_, owned_key, body };
				if src.chance(sw.p_unwinding_drop) {
					Step::UnwindingDrop { inner: Box::new(sc) }
				} else {
					sc
				}
			}
			5 => {
				let ops = gen_body(src, &world, sw, true);
				if ops.iter().any(|o| matches!(o, BodyOp::Panic)) {
					st[t].guard = false;
					st[t].key = true;
				}
				Step::GuardOps { ops }
			}
			6 => {
				let how = if src.chance(sw.p_forget_guard) {
					ReleaseHow::Forget
				} else if src.chance(sw.p_unlock_fn) {
					ReleaseHow::UnlockFn
				} else {
					ReleaseHow::Drop
				};
				st[t].guard = false;
				match how {
					ReleaseHow::UnlockFn => st[t].key = true,
					ReleaseHow::Forget => st[t].lost = true,
					ReleaseHow::Drop => {}
				}
				Step::Release { how }
			}
			7 => {
				let leaf = src.pick(sem_nlocks.max(1)) as Lid;
				let shared = src.chance(110);
				let transient = src.chance(sw.p_transient);
				phantoms.push(leaf);
				Step::PhantomHold { leaf, shared, transient }
			}
			8 => {
				let i = src.pick(phantoms.len());
				let leaf = phantoms.remove(i);
				Step::PhantomRelease { leaf }
			}
			9 => Step::IsPoisoned { target: gen_target(src, &world, sw.p_coll_target) },
			10 => Step::ClearPoison { target: gen_target(src, &world, sw.p_coll_target) },
			11 => {
				let target = gen_target(src, &world, sw.p_coll_target);
				let cap = if src.chance(90) { Some(src.pick(120) as u16) } else { None };
				let payload = if src.chance(50) { 1 + src.pick(2) as u8 } else { 0 };
				Step::Debug { target, cap, payload }
			}
			12 => Step::Accessors { target: gen_target(src, &world, sw.p_coll_target) },
			14 => Step::Kill { leaf: src.pick(world.leaves.len()) },
			15 => {
				let route = src.pick(4) as u8;
				// 0 dropped: obtainable again, 1 leaked: gone for good,
				// 2 / 3: back in the thread's hands
				match route {
					0 => st[t].key = false,
					1 => {
						st[t].key = false;
						st[t].lost = true;
					}
					_ => {}
				}
				Step::ParkKey { cont: src.pick(crate::interp::PARK_CONTS as usize) as u8, route }
			}
			16 => {
				// around the widths a counter could have
				let n = match src.pick(8) {
					0 => 2,
					1 => 127 + src.pick(4) as u32,
					2 | 3 => 254 + src.pick(5) as u32,
					4 => 300 + src.pick(300) as u32,
					5 => 510 + src.pick(5) as u32,
					6 => 1000 + src.pick(3000) as u32,
					_ => 65_534 + src.pick(5) as u32,
				};
				Step::ProbeKeyMany { n }
			}
			17 => {
				let leak = src.chance(90);
				if leak {
					st[t].key = false;
					st[t].lost = true;
				}
				Step::OwnedTemp { shape: src.pick(crate::interp::TEMP_SHAPES as usize) as u8, leak, kill: src.chance(70), op: src.pick(8) as u8 }
			}
			_ => {
				let kind = match src.pick(3) {
					0 => KindTag::Boxed,
					1 => KindTag::Retry,
					_ => KindTag::Ref,
				};
				let members = gen_member_list(src, &world, 4);
				let then = match src.pick(6) {
					0 | 1 => TempThen::Drop,
					2 => TempThen::IntoChild,
					3 => TempThen::IntoIter,
					4 => TempThen::Inspect,
					_ => TempThen::Borrow,
				};
				Step::TempColl { kind, members, then }
			}
		};
		steps.push((t as Tid, step));
	}
	SeqCase { world, nthreads: nthreads as u8, steps, fault: None }
}

#[derive(Clone, Debug)]
pub struct ConcCfg {
	pub world: WorldCfg,
	pub min_threads: usize,
	pub max_threads: usize,
	pub max_acq: usize,
	pub p_try: u8,
	pub p_read: u8,
	pub p_scoped: u8,
	pub p_owned_key: u8,
	pub p_panic: u8,
	pub p_unlock_fn: u8,
	pub p_yield: u8,
	pub p_debug_in_body: u8,
	/// chance of a `{:?}` of some target between two acquisitions
	pub p_debug_step: u8,
	/// chance of a `lockable::RawLock::poison` on a stand-alone leaf before an acquisition
	pub p_kill_step: u8,
	pub p_coll_target: u8,
	pub max_sched: usize,
	/// first thread always uses a retrying collection when one exists
	pub retry_first: bool,
	/// every thread's first acquisition uses a retrying collection when one exists
	pub retry_all: bool,
	/// chance that the schedule is a short motif repeated `pattern_len` times
	/// (strict alternation and the like: what makes retrying collections chase
	/// each other for many rounds) instead of independent choices
	pub p_pattern_sched: u8,
	pub pattern_len: usize,
}

impl Default for ConcCfg {
	fn default() -> Self {
		ConcCfg {
			world: WorldCfg { min_leaves: 2, min_colls: 2, max_colls: 5, p_zst_member: 8, p_own_member: 10, ..Default::default() },
			min_threads: 2,
			max_threads: 4,
			max_acq: 3,
			p_try: 50,
			p_read: 90,
			p_scoped: 110,
			p_owned_key: 100,
			p_panic: 0,
			p_unlock_fn: 100,
			p_yield: 160,
			p_debug_in_body: 0,
			p_debug_step: 0,
			p_kill_step: 0,
			p_coll_target: 215,
			max_sched: 48,
			retry_first: false,
			retry_all: false,
			p_pattern_sched: 0,
			pattern_len: 0,
		}
	}
}

pub fn gen_conc(src: &mut Src<'_>, cfg: &ConcCfg) -> ConcCase {
	let world = gen_world(src, &cfg.world);
	let writer_pref = src.chance(128);
	let nt = cfg.min_threads + src.pick(cfg.max_threads - cfg.min_threads + 1);
	let retry_colls: Vec<usize> =
		world.colls.iter().enumerate().filter(|(_, c)| c.kind == KindTag::Retry).map(|(i, _)| i).collect();
	let mut programs = Vec::new();
	for t in 0..nt {
		let na = 1 + src.pick(cfg.max_acq);
		let mut prog = Vec::new();
		for a in 0..na {
			if cfg.p_kill_step > 0 && !world.leaves.is_empty() && src.chance(cfg.p_kill_step) {
				prog.push(Step::Kill { leaf: src.pick(world.leaves.len()) });
			}
			if src.chance(cfg.p_debug_step) {
				prog.push(Step::Debug { target: gen_target(src, &world, cfg.p_coll_target), cap: None, payload: 0 });
			}
			let mut target = gen_target(src, &world, cfg.p_coll_target);
			if ((cfg.retry_first && t == 0) || cfg.retry_all) && a == 0 && !retry_colls.is_empty() {
				target = TargetRef::Coll(retry_colls[src.pick(retry_colls.len())]);
			}
			let try_ = src.chance(cfg.p_try);
			let read = src.chance(cfg.p_read);
			let mut body = vec![BodyOp::Touch];
			if src.chance(cfg.p_yield) {
				body.push(BodyOp::Yield);
				body.push(BodyOp::Touch);
			}
			if src.chance(cfg.p_debug_in_body) {
				body.push(BodyOp::DebugTarget(gen_target(src, &world, cfg.p_coll_target)));
			}
			let panic = src.chance(cfg.p_panic);
			if panic {
				body.push(BodyOp::Panic);
			}
			if src.chance(cfg.p_scoped) {
				let owned_key = src.chance(cfg.p_owned_key);
				prog.push(Step::Scoped { target, read, try_, owned_key, body });
				if owned_key {
					prog.push(Step::GetKey);
				}
			} else {
				prog.push(Step::Acquire { target, read, try_ });
				prog.push(Step::GuardOps { ops: body });
				if !panic {
					let how = if src.chance(cfg.p_unlock_fn) { ReleaseHow::UnlockFn } else { ReleaseHow::Drop };
					prog.push(Step::Release { how });
					if how == ReleaseHow::Drop {
						prog.push(Step::GetKey);
					}
				}
			}
		}
		programs.push(prog);
	}
	let pattern = src.chance(cfg.p_pattern_sched);
	let motif_len = 1 + src.pick(4);
	let mut schedule = src.rest();
	if pattern && cfg.pattern_len > 0 && !schedule.is_empty() {
		let motif: Vec<u8> = schedule.iter().copied().take(motif_len).collect();
		schedule = motif.iter().copied().cycle().take(cfg.pattern_len).collect();
	} else {
		schedule.truncate(cfg.max_sched);
	}
	ConcCase { world, programs, schedule, writer_pref, forced: None }
}
