//! Verification raw locks: `lock_api::RawMutex` / `RawRwLock` implementations
//! whose whole behaviour lives in the current `Exec` (owner table, audit,
//! trace, faults, scheduling).  happylock is instantiated with these through
//! its public `R` type parameter; no source hook is needed.

use crate::exec::{self, Lid, Op, NEXT_ID, REGISTERING};
use std::sync::atomic::{AtomicU32, Ordering};

const UNSET: u32 = u32::MAX;

pub struct VMutex {
	id: AtomicU32,
}

pub struct VRw {
	id: AtomicU32,
}

fn resolve(id: &AtomicU32) -> Option<Lid> {
	let v = id.load(Ordering::Relaxed);
	if v != UNSET {
		return Some(v);
	}
	let n = NEXT_ID.with(|n| n.take());
	match n {
		Some(n) => {
			id.store(n, Ordering::Relaxed);
			Some(n)
		}
		None => None,
	}
}

fn op(id: &AtomicU32, op: Op) -> bool {
	let Some(lid) = resolve(id) else {
		// an unregistered lock (temporary values built by the harness outside
		// any execution): behaves as an always-free lock
		return true;
	};
	if REGISTERING.with(|r| r.get()) {
		return true;
	}
	exec::raw_op(lid, op)
}

unsafe impl lock_api::RawMutex for VMutex {
	#[allow(clippy::declare_interior_mutable_const)]
	const INIT: Self = VMutex { id: AtomicU32::new(UNSET) };
	type GuardMarker = lock_api::GuardNoSend;

	fn lock(&self) {
		op(&self.id, Op::Lock);
	}
	fn try_lock(&self) -> bool {
		op(&self.id, Op::TryLock)
	}
	unsafe fn unlock(&self) {
		op(&self.id, Op::Unlock);
	}
}

unsafe impl lock_api::RawRwLock for VRw {
	#[allow(clippy::declare_interior_mutable_const)]
	const INIT: Self = VRw { id: AtomicU32::new(UNSET) };
	type GuardMarker = lock_api::GuardNoSend;

	fn lock_shared(&self) {
		op(&self.id, Op::LockSh);
	}
	fn try_lock_shared(&self) -> bool {
		op(&self.id, Op::TryLockSh)
	}
	unsafe fn unlock_shared(&self) {
		op(&self.id, Op::UnlockSh);
	}
	fn lock_exclusive(&self) {
		op(&self.id, Op::Lock);
	}
	fn try_lock_exclusive(&self) -> bool {
		op(&self.id, Op::TryLock)
	}
	unsafe fn unlock_exclusive(&self) {
		op(&self.id, Op::Unlock);
	}
}

/// Run `f` (which must perform exactly one solo try+unlock on a fresh lock
/// through happylock's public API) so that the lock gets id `lid`.
pub fn register_with<T>(lid: Lid, f: impl FnOnce() -> T) -> T {
	NEXT_ID.with(|n| n.set(Some(lid)));
	REGISTERING.with(|r| r.set(true));
	let r = f();
	REGISTERING.with(|r| r.set(false));
	let left = NEXT_ID.with(|n| n.take());
	assert!(left.is_none(), "registration of lock {lid} did not reach the raw lock");
	r
}
