//! API-surface-driven generation for the TYPES engine.
//!
//! The escape-route families of `tyeng.rs` name the methods they try
//! (`deref`, `as_ref`, `child`, ...).  A change that *adds* a route under a new
//! name is outside such a list by construction.  Here the list of methods is
//! not written down but read from the tree under test: `cargo rustdoc` emits the
//! public API of /repo as JSON, and for every method (inherent or from a trait
//! impl) of every hold-carrying type that takes the hold by reference and
//! returns something that carries a reference or a lifetime, a twin /
//! offending pair is generated: the result may be used while the hold is
//! alive (twin) and must not be usable after the hold was handed back
//! (offending).  The subject is always a lock the program *owns* (a single
//! lock, or a member of an owned collection), so that nothing reachable
//! through a hold may legitimately outlive it.

use std::path::PathBuf;
use std::process::Command;

use serde_json::Value;

use crate::tyeng::{Api, CollK, ContK, LockTy, Pair, Subj, PRELUDE};

#[derive(Clone, Debug)]
pub enum Recv {
	/// `&self`
	SelfRef,
	/// `&mut self`
	SelfMut,
	/// associated function whose only parameter is `&Self` (`this: &Self`)
	AssocRef,
	/// associated function whose only parameter is `&mut Self`
	AssocMut,
}

#[derive(Clone, Debug)]
pub struct Method {
	pub owner: String,
	pub trait_name: Option<String>,
	/// number of generic arguments of the trait in the impl header
	pub trait_args: usize,
	/// the result mentions a lock type (`&Mutex<..>`, `&RwLock<..>`, a
	/// Poisonable or a collection) rather than protected data
	pub returns_lock: bool,
	pub name: String,
	pub recv: Recv,
}

#[derive(Default, Debug)]
pub struct SurfaceStats {
	pub methods_seen: usize,
	pub skipped_by_value_or_extra_args: usize,
	pub skipped_no_reference_in_result: usize,
}

fn target_dir() -> PathBuf {
	// HLV_REPO: the sensitivity tooling points the harness at a scratch copy of the repository
	crate::runner::verif_root().join("work").join("rustdoc-target")
}

/// Run rustdoc on /repo's current working tree and return the JSON document.
pub fn rustdoc_json() -> Result<Value, String> {
	let td = target_dir();
	let _ = std::fs::create_dir_all(&td);
	let out = Command::new("cargo")
		.arg("+nightly")
		.arg("rustdoc")
		.arg("--offline")
		.arg("--lib")
		.arg("--manifest-path")
		.arg(format!("{}/Cargo.toml", std::env::var("HLV_REPO").unwrap_or_else(|_| "/repo".into())))
		.arg("--target-dir")
		.arg(&td)
		.arg("--")
		.arg("-Z")
		.arg("unstable-options")
		.arg("--output-format")
		.arg("json")
		.env("CARGO_NET_OFFLINE", "true")
		.output()
		.map_err(|e| format!("cannot run cargo rustdoc: {e}"))?;
	if !out.status.success() {
		return Err(format!("cargo rustdoc failed: {}", String::from_utf8_lossy(&out.stderr).chars().rev().take(600).collect::<String>().chars().rev().collect::<String>()));
	}
	let p = td.join("doc").join("happylock.json");
	let txt = std::fs::read_to_string(&p).map_err(|e| format!("cannot read {}: {e}", p.display()))?;
	serde_json::from_str(&txt).map_err(|e| format!("cannot parse rustdoc JSON: {e}"))
}

/// does a rustdoc type carry a reference or a non-'static lifetime?
fn has_ref(t: &Value) -> bool {
	match t {
		Value::Object(m) => {
			if m.contains_key("borrowed_ref") {
				return true;
			}
			for (k, v) in m {
				if k == "lifetime" {
					if let Some(s) = v.as_str() {
						if s != "'static" {
							return true;
						}
					}
				}
				if has_ref(v) {
					return true;
				}
			}
			false
		}
		Value::Array(a) => a.iter().any(has_ref),
		_ => false,
	}
}

/// does a rustdoc type mention a lock or collection type by path?
fn mentions_lock(t: &Value) -> bool {
	match t {
		Value::Object(m) => {
			if let Some(rp) = m.get("resolved_path") {
				if let Some(p) = rp.get("path").and_then(|p| p.as_str()) {
					let last = p.rsplit("::").next().unwrap_or(p);
					if ["Mutex", "RwLock", "Poisonable", "LockCollection", "BoxedLockCollection", "RefLockCollection", "OwnedLockCollection", "RetryingLockCollection"].contains(&last) {
						return true;
					}
				}
			}
			m.values().any(mentions_lock)
		}
		Value::Array(a) => a.iter().any(mentions_lock),
		_ => false,
	}
}

fn is_self_ref(t: &Value) -> Option<bool> {
	let b = t.get("borrowed_ref")?;
	let inner = b.get("type")?;
	let is_self = inner.get("generic").and_then(|g| g.as_str()) == Some("Self");
	if !is_self {
		return None;
	}
	Some(b.get("is_mutable").and_then(|x| x.as_bool()).unwrap_or(false))
}

pub const HOLD_TYPES: [&str; 9] = ["MutexGuard", "MutexRef", "RwLockReadGuard", "RwLockWriteGuard", "RwLockReadRef", "RwLockWriteRef", "LockGuard", "PoisonGuard", "PoisonRef"];

/// Methods of the hold-carrying types that take the hold by reference, take
/// nothing else, and return something with a reference / lifetime in it.
pub fn methods(doc: &Value) -> (Vec<Method>, SurfaceStats) {
	let mut out = Vec::new();
	let mut st = SurfaceStats::default();
	let Some(index) = doc.get("index").and_then(|i| i.as_object()) else { return (out, st) };
	for item in index.values() {
		let Some(name) = item.get("name").and_then(|n| n.as_str()) else { continue };
		if !HOLD_TYPES.contains(&name) {
			continue;
		}
		let Some(st_) = item.get("inner").and_then(|i| i.get("struct")) else { continue };
		let Some(impls) = st_.get("impls").and_then(|i| i.as_array()) else { continue };
		for iid in impls {
			let key = match iid {
				Value::Number(n) => n.to_string(),
				Value::String(s) => s.clone(),
				_ => continue,
			};
			let Some(im) = index.get(&key).and_then(|x| x.get("inner")).and_then(|x| x.get("impl")) else { continue };
			if !im.get("blanket_impl").map(|b| b.is_null()).unwrap_or(true) {
				continue;
			}
			if im.get("is_synthetic").and_then(|b| b.as_bool()).unwrap_or(false) {
				continue;
			}
			let trait_name = im.get("trait").and_then(|t| t.get("path")).and_then(|p| p.as_str()).map(|s| s.rsplit("::").next().unwrap_or(s).to_string());
			let trait_args = im
				.get("trait")
				.and_then(|t| t.get("args"))
				.and_then(|a| a.get("angle_bracketed"))
				.and_then(|a| a.get("args"))
				.and_then(|a| a.as_array())
				.map(|a| a.len())
				.unwrap_or(0);
			let Some(items) = im.get("items").and_then(|i| i.as_array()) else { continue };
			for fid in items {
				let fkey = match fid {
					Value::Number(n) => n.to_string(),
					Value::String(s) => s.clone(),
					_ => continue,
				};
				let Some(f) = index.get(&fkey) else { continue };
				let Some(func) = f.get("inner").and_then(|i| i.get("function")) else { continue };
				let Some(fname) = f.get("name").and_then(|n| n.as_str()) else { continue };
				st.methods_seen += 1;
				let sig = &func["sig"];
				let inputs = sig.get("inputs").and_then(|i| i.as_array()).cloned().unwrap_or_default();
				let generic_types = func
					.get("generics")
					.and_then(|g| g.get("params"))
					.and_then(|p| p.as_array())
					.map(|p| p.iter().filter(|x| x.get("kind").map(|k| k.get("type").is_some() || k.get("const").is_some()).unwrap_or(false)).count())
					.unwrap_or(0);
				if inputs.len() != 1 || generic_types > 0 {
					st.skipped_by_value_or_extra_args += 1;
					continue;
				}
				let pname = inputs[0].get(0).and_then(|n| n.as_str()).unwrap_or("");
				let Some(is_mut) = is_self_ref(&inputs[0][1]) else {
					st.skipped_by_value_or_extra_args += 1;
					continue;
				};
				let recv = match (pname == "self", is_mut) {
					(true, false) => Recv::SelfRef,
					(true, true) => Recv::SelfMut,
					(false, false) => Recv::AssocRef,
					(false, true) => Recv::AssocMut,
				};
				let output = sig.get("output").cloned().unwrap_or(Value::Null);
				if output.is_null() || !has_ref(&output) {
					st.skipped_no_reference_in_result += 1;
					continue;
				}
				out.push(Method { owner: name.to_string(), trait_name: trait_name.clone(), trait_args, returns_lock: mentions_lock(&output), name: fname.to_string(), recv });
			}
		}
	}
	out.sort_by(|a, b| (a.owner.clone(), a.trait_name.clone(), a.name.clone()).cmp(&(b.owner.clone(), b.trait_name.clone(), b.name.clone())));
	(out, st)
}

struct Holder {
	decl: String,
	acquire: String,
	pre: String,
	recv: String,
	unlock: String,
}

fn holder(owner: &str, lock: LockTy) -> Option<Holder> {
	let single = |lock: LockTy, pois: bool, api: Api| {
		let s = Subj { lock, pois, coll: None, api };
		let unlock = if pois {
			s.unlock("g")
		} else {
			match (lock, api) {
				(LockTy::Mutex, _) => "Mutex::unlock(g)".to_string(),
				(LockTy::RwLock, Api::Read | Api::TryRead) => "RwLock::unlock_read(g)".to_string(),
				(LockTy::RwLock, _) => "RwLock::unlock_write(g)".to_string(),
			}
		};
		Holder { decl: s.decl(), acquire: s.acquire("s", "key"), pre: String::new(), recv: "g".into(), unlock }
	};
	let owned = |lock: LockTy, api: Api, recv: &str| {
		let s = Subj { lock, pois: false, coll: Some((CollK::Owned, ContK::Array)), api };
		Holder { decl: s.decl(), acquire: s.acquire("s", "key"), pre: String::new(), recv: recv.into(), unlock: s.unlock("g") }
	};
	Some(match (owner, lock) {
		("MutexGuard", LockTy::Mutex) => single(LockTy::Mutex, false, Api::Lock),
		("RwLockWriteGuard", LockTy::RwLock) => single(LockTy::RwLock, false, Api::Lock),
		("RwLockReadGuard", LockTy::RwLock) => single(LockTy::RwLock, false, Api::Read),
		("PoisonGuard", l) => single(l, true, Api::Lock),
		("LockGuard", l) => owned(l, Api::Lock, "g"),
		("MutexRef", LockTy::Mutex) => owned(LockTy::Mutex, Api::Lock, "g[1]"),
		("RwLockWriteRef", LockTy::RwLock) => owned(LockTy::RwLock, Api::Lock, "g[1]"),
		("RwLockReadRef", LockTy::RwLock) => owned(LockTy::RwLock, Api::Read, "g[1]"),
		("PoisonRef", l) => {
			let (ty, new) = match l {
				LockTy::Mutex => ("Mutex<i32>", "Mutex::new"),
				LockTy::RwLock => ("RwLock<i32>", "RwLock::new"),
			};
			Holder {
				decl: format!("let s = OwnedLockCollection::new([Poisonable::new({new}(1)), Poisonable::new({new}(2))]);"),
				acquire: "s.lock(key)".into(),
				pre: "    let pr = g[1].as_mut().ok().unwrap();\n".into(),
				recv: "(*pr)".into(),
				unlock: format!("OwnedLockCollection::<[Poisonable<{ty}>; 2]>::unlock(g)"),
			}
		}
		_ => return None,
	})
}

/// Pairs for every discovered method.
pub fn families_surface(prop: &str, ms: &[Method]) -> Vec<Pair> {
	let mut v = Vec::new();
	for m in ms {
		for lock in [LockTy::Mutex, LockTy::RwLock] {
			// a reference to the lock itself, taken from the guard of a lock the
			// program holds by name anyway, gives nothing away; from a hold on a
			// member of an owned collection it does
			if m.returns_lock && matches!(m.owner.as_str(), "MutexGuard" | "RwLockReadGuard" | "RwLockWriteGuard" | "PoisonGuard") {
				continue;
			}
			let Some(h) = holder(&m.owner, lock) else { continue };
			const NAMEABLE: [&str; 8] = ["Deref", "DerefMut", "AsRef", "AsMut", "Borrow", "BorrowMut", "Index", "IndexMut"];
			let call = match (&m.recv, &m.trait_name) {
				// trait methods through the trait, with Self taken from the argument
				// exactly (no auto-deref into the held data)
				(Recv::SelfRef | Recv::SelfMut, Some(t)) if NAMEABLE.contains(&t.as_str()) => {
					let args = if m.trait_args > 0 { format!("<{}>", vec!["_"; m.trait_args].join(", ")) } else { String::new() };
					let amp = if matches!(m.recv, Recv::SelfMut) { "&mut " } else { "&" };
					format!("<_ as {t}{args}>::{}({amp}{})", m.name, h.recv)
				}
				_ => match m.recv {
				Recv::SelfRef | Recv::SelfMut => format!("{}.{}()", h.recv, m.name),
				Recv::AssocRef => format!("{}::{}(&{})", m.owner, m.name, h.recv),
				Recv::AssocMut => format!("{}::{}(&mut {})", m.owner, m.name, h.recv),
				},
			};
			let body = format!(
				"    let key = ThreadKey::get().unwrap();\n    {}\n    let mut g = {};\n{}    let r = {call};\n@@\n    drop(key);\n",
				h.decl, h.acquire, h.pre
			);
			let template = format!("{PRELUDE}use std::ops::{{Deref, DerefMut, Index, IndexMut}};\nuse std::borrow::{{Borrow, BorrowMut}};\npub fn probe() {{\n{body}\n}}\n");
			let region = |t: &str| format!("//<<\n{t}\n//>>");
			let twin = format!("    let _u = &r;\n    let key = {};", h.unlock);
			let off = format!("    let key = {};\n    let _u = &r;", h.unlock);
			v.push(Pair {
				prop: prop.into(),
				family: "S1-surface-method-result-outlives-hold".into(),
				name: format!(
					"{}::{}{} on {:?}",
					m.owner,
					m.name,
					m.trait_name.as_ref().map(|t| format!(" ({t})")).unwrap_or_default(),
					lock
				),
				twin: template.replace("@@", &region(&twin)),
				offending: template.replace("@@", &region(&off)),
				std_offending: None,
			});
		}
	}
	v
}

// ---------------------------------------------------------------------------
// S3 / S4: two more shapes read from the surface

fn key_of(v: &Value) -> Option<String> {
	match v {
		Value::Number(n) => Some(n.to_string()),
		Value::String(s) => Some(s.clone()),
		_ => None,
	}
}

/// (owner, trait name, trait arity, fn name, receiver is `self` (method syntax), signature)
fn functions_of<'a>(doc: &'a Value, owners: &[&str]) -> Vec<(String, Option<String>, usize, String, &'a Value)> {
	let mut out = Vec::new();
	let Some(index) = doc.get("index").and_then(|i| i.as_object()) else { return out };
	for item in index.values() {
		let Some(name) = item.get("name").and_then(|n| n.as_str()) else { continue };
		if !owners.contains(&name) {
			continue;
		}
		let Some(impls) = item.get("inner").and_then(|i| i.get("struct")).and_then(|s| s.get("impls")).and_then(|i| i.as_array()) else { continue };
		for iid in impls {
			let Some(im) = key_of(iid).and_then(|k| index.get(&k)).and_then(|x| x.get("inner")).and_then(|x| x.get("impl")) else { continue };
			if !im.get("blanket_impl").map(|b| b.is_null()).unwrap_or(true) || im.get("is_synthetic").and_then(|b| b.as_bool()).unwrap_or(false) {
				continue;
			}
			let trait_name = im.get("trait").and_then(|t| t.get("path")).and_then(|p| p.as_str()).map(|s| s.rsplit("::").next().unwrap_or(s).to_string());
			let trait_args = im.get("trait").and_then(|t| t.get("args")).and_then(|a| a.get("angle_bracketed")).and_then(|a| a.get("args")).and_then(|a| a.as_array()).map(|a| a.len()).unwrap_or(0);
			for fid in im.get("items").and_then(|i| i.as_array()).cloned().unwrap_or_default() {
				let Some(f) = key_of(&fid).and_then(|k| index.get(&k)) else { continue };
				let Some(func) = f.get("inner").and_then(|i| i.get("function")) else { continue };
				if func.get("header").and_then(|h| h.get("is_unsafe")).and_then(|b| b.as_bool()).unwrap_or(false) {
					continue;
				}
				let Some(fname) = f.get("name").and_then(|n| n.as_str()) else { continue };
				out.push((name.to_string(), trait_name.clone(), trait_args, fname.to_string(), func));
			}
		}
	}
	out.sort_by(|a, b| (&a.0, &a.1, &a.3).cmp(&(&b.0, &b.1, &b.3)));
	out
}

fn mentions_keyless_hold(t: &Value) -> bool {
	match t {
		Value::Object(m) => {
			if let Some(p) = m.get("resolved_path").and_then(|rp| rp.get("path")).and_then(|p| p.as_str()) {
				let last = p.rsplit("::").next().unwrap_or(p);
				if ["MutexRef", "RwLockReadRef", "RwLockWriteRef", "PoisonRef"].contains(&last) {
					return true;
				}
			}
			if m.get("generic").and_then(|g| g.as_str()) == Some("Guard") {
				return true;
			}
			m.values().any(mentions_keyless_hold)
		}
		Value::Array(a) => a.iter().any(mentions_keyless_hold),
		_ => false,
	}
}

/// S3: a by-value function of a key-carrying guard whose result mentions a
/// keyless hold type splits the guard into hold and key.  S4: a `&mut self`
/// function of a boxed / retrying collection that can hand out `&mut Vec<lock>`
/// lets the member list change after it was sorted / checked.
pub fn families_surface_shapes(prop: &str, doc: &Value) -> (Vec<Pair>, usize) {
	let mut v = Vec::new();
	let mut seen = 0usize;
	let region = |t: &str| format!("//<<\n{t}\n//>>");
	if prop == "C14" {
		for (owner, tr, _ta, name, func) in functions_of(doc, &["MutexGuard", "RwLockReadGuard", "RwLockWriteGuard", "LockGuard", "PoisonGuard"]) {
			seen += 1;
			let inputs = func["sig"].get("inputs").and_then(|i| i.as_array()).cloned().unwrap_or_default();
			if inputs.len() != 1 || inputs[0][1].get("generic").and_then(|g| g.as_str()) != Some("Self") {
				continue;
			}
			let output = func["sig"].get("output").cloned().unwrap_or(Value::Null);
			if output.is_null() || !mentions_keyless_hold(&output) {
				continue;
			}
			let is_self = inputs[0].get(0).and_then(|n| n.as_str()) == Some("self");
			for lock in [LockTy::Mutex, LockTy::RwLock] {
				let Some(h) = holder(&owner, lock) else { continue };
				let call = if is_self { format!("g.{name}()") } else { format!("{owner}::{name}(g)") };
				let body = format!("    let key = ThreadKey::get().unwrap();\n    {}\n    let mut g = {};\n@@\n", h.decl, h.acquire);
				let template = format!("{PRELUDE}pub fn probe() {{\n{body}\n}}\n");
				v.push(Pair {
					prop: prop.into(),
					family: "S3-surface-guard-splits-into-keyless-hold".into(),
					name: format!("{owner}::{name}{} on {lock:?}", tr.as_ref().map(|t| format!(" ({t})")).unwrap_or_default()),
					twin: template.replace("@@", &region(&format!("    let key = {};\n    drop(key);", h.unlock))),
					offending: template.replace("@@", &region(&format!("    let hold = {call};\n    let again = ThreadKey::get();"))),
					std_offending: None,
				});
			}
		}
	} else {
		for (owner, tr, ta, name, func) in functions_of(doc, &["BoxedLockCollection", "RetryingLockCollection"]) {
			seen += 1;
			let inputs = func["sig"].get("inputs").and_then(|i| i.as_array()).cloned().unwrap_or_default();
			if inputs.len() != 1 || is_self_ref(&inputs[0][1]) != Some(true) {
				continue;
			}
			let output = func["sig"].get("output").cloned().unwrap_or(Value::Null);
			let out_is_mut_ref = output.get("borrowed_ref").and_then(|b| b.get("is_mutable")).and_then(|b| b.as_bool()).unwrap_or(false);
			if !out_is_mut_ref {
				continue;
			}
			let is_self = inputs[0].get(0).and_then(|n| n.as_str()) == Some("self");
			for (lockname, ctor) in [("Mutex", "Mutex::new(0)"), ("RwLock", "RwLock::new(0)")] {
				let (decl, elem, twin) = if owner == "BoxedLockCollection" {
					(format!("    let mut c = LockCollection::new(vec![{ctor}]);"), format!("{lockname}<i32>"), "    let v: &Vec<_> = c.child();\n    let _ = v.len();".to_string())
				} else {
					(format!("    let m = {ctor};\n    let mut c = RetryingLockCollection::try_new(vec![&m]).unwrap();"), format!("&{lockname}<i32>"), "    let v: &Vec<_> = c.child();\n    let _ = v.len();".to_string())
				};
				let call = match (&tr, is_self) {
					(Some(t), _) if ["AsMut", "BorrowMut", "DerefMut", "IndexMut"].contains(&t.as_str()) => {
						let args = if ta > 0 { format!("<{}>", vec!["_"; ta].join(", ")) } else { String::new() };
						format!("<_ as {t}{args}>::{name}(&mut c)")
					}
					(_, true) => format!("c.{name}()"),
					(_, false) => format!("{owner}::{name}(&mut c)"),
				};
				let template = format!("{PRELUDE}use std::ops::{{Deref, DerefMut, Index, IndexMut}};\nuse std::borrow::{{Borrow, BorrowMut}};\npub fn probe() {{\n{decl}\n@@\n}}\n");
				v.push(Pair {
					prop: prop.into(),
					family: "S4-surface-member-list-handed-out-mutably".into(),
					name: format!("{owner}::{name}{} over {lockname}", tr.as_ref().map(|t| format!(" ({t})")).unwrap_or_default()),
					twin: template.replace("@@", &region(&twin)),
					offending: template.replace("@@", &region(&format!("    let v: &mut Vec<{elem}> = {call};\n    let _ = v.len();"))),
					std_offending: None,
				});
			}
		}
	}
	(v, seen)
}

/// `t_is_data`: the owner's type parameter `T` is the protected value (single
/// locks); in the impls of collections `T` is just some conversion target
fn mentions_data(t: &Value, t_is_data: bool) -> bool {
	match t {
		Value::Object(m) => {
			if t_is_data && m.get("generic").and_then(|g| g.as_str()) == Some("T") {
				return true;
			}
			if let Some(q) = m.get("qualified_path") {
				if let Some(n) = q.get("name").and_then(|n| n.as_str()) {
					if ["DataRef", "DataMut", "Inner", "Guard", "ReadGuard"].contains(&n) {
						return true;
					}
				}
			}
			m.values().any(|x| mentions_data(x, t_is_data))
		}
		Value::Array(a) => a.iter().any(|x| mentions_data(x, t_is_data)),
		_ => false,
	}
}

/// S5 (C15): a safe function of a lock or collection that takes nothing but
/// `&self` - no key, no guard, no exclusive borrow - and whose result mentions
/// the protected data (`T`, `DataRef`, `DataMut`, `Inner`, a guard type) reads
/// or hands out data nobody holds the lock for.  Raw pointers are left alone
/// (obtaining one is harmless, dereferencing it is unsafe).
pub fn families_surface_keyless_data(prop: &str, doc: &Value) -> (Vec<Pair>, usize) {
	let mut v = Vec::new();
	let mut seen = 0usize;
	let region = |t: &str| format!("//<<\n{t}\n//>>");
	let owners = ["Mutex", "RwLock", "Poisonable", "BoxedLockCollection", "RefLockCollection", "OwnedLockCollection", "RetryingLockCollection"];
	for (owner, tr, ta, name, func) in functions_of(doc, &owners) {
		seen += 1;
		let inputs = func["sig"].get("inputs").and_then(|i| i.as_array()).cloned().unwrap_or_default();
		if inputs.len() != 1 || is_self_ref(&inputs[0][1]) != Some(false) {
			continue;
		}
		let generic_types = func
			.get("generics")
			.and_then(|g| g.get("params"))
			.and_then(|p| p.as_array())
			.map(|p| p.iter().filter(|x| x.get("kind").map(|k| k.get("type").is_some()).unwrap_or(false)).count())
			.unwrap_or(0);
		if generic_types > 0 {
			continue;
		}
		let output = func["sig"].get("output").cloned().unwrap_or(Value::Null);
		let t_is_data = matches!(owner.as_str(), "Mutex" | "RwLock");
		if output.is_null() || output.get("raw_pointer").is_some() || !mentions_data(&output, t_is_data) {
			continue;
		}
		let is_self = inputs[0].get(0).and_then(|n| n.as_str()) == Some("self");
		let decls: Vec<(&str, String)> = match owner.as_str() {
			"Mutex" => vec![("Mutex", "    let s = Mutex::new(1i32);".into())],
			"RwLock" => vec![("RwLock", "    let s = RwLock::new(1i32);".into())],
			"Poisonable" => vec![("Poisonable<Mutex>", "    let s = Poisonable::new(Mutex::new(1i32));".into()), ("Poisonable<RwLock>", "    let s = Poisonable::new(RwLock::new(1i32));".into())],
			"BoxedLockCollection" => vec![("LockCollection<[Mutex; 2]>", "    let s = LockCollection::new([Mutex::new(1i32), Mutex::new(2i32)]);".into())],
			"RefLockCollection" => vec![("RefLockCollection<[Mutex; 2]>", "    let d = [Mutex::new(1i32), Mutex::new(2i32)];\n    let s = RefLockCollection::new(&d);".into())],
			"OwnedLockCollection" => vec![("OwnedLockCollection<[RwLock; 2]>", "    let s = OwnedLockCollection::new([RwLock::new(1i32), RwLock::new(2i32)]);".into())],
			_ => vec![("RetryingLockCollection<[RwLock; 2]>", "    let s = RetryingLockCollection::new([RwLock::new(1i32), RwLock::new(2i32)]);".into())],
		};
		for (subj, decl) in decls {
			let call = match (&tr, is_self) {
				(Some(t), _) if ["AsRef", "Borrow", "Deref", "Index"].contains(&t.as_str()) => {
					let args = if ta > 0 { format!("<{}>", vec!["_"; ta].join(", ")) } else { String::new() };
					format!("<_ as {t}{args}>::{name}(&s)")
				}
				(_, true) => format!("s.{name}()"),
				(_, false) => format!("{owner}::{name}(&s)"),
			};
			let template = format!("{PRELUDE}use std::ops::{{Deref, DerefMut, Index, IndexMut}};\nuse std::borrow::{{Borrow, BorrowMut}};\npub fn probe() {{\n{decl}\n@@\n}}\n");
			v.push(Pair {
				prop: prop.into(),
				family: "S5-surface-data-without-key-or-exclusive-borrow".into(),
				name: format!("{owner}::{name}{} on {subj}", tr.as_ref().map(|t| format!(" ({t})")).unwrap_or_default()),
				twin: template.replace("@@", &region("    let _n = std::mem::size_of_val(&s);")),
				offending: template.replace("@@", &region(&format!("    let _data = {call};"))),
				std_offending: None,
			});
		}
	}
	(v, seen)
}

/// S6 (C07): constructors read from the surface.  An owned collection reports
/// itself as one lock to every duplicate check, so no constructor of it - under
/// whatever name, checked or not - may accept members it does not own; and a
/// constructor of the other kinds that returns the collection itself (not an
/// `Option` / `Result`: nothing was checked) must not accept borrowed members.
pub fn families_surface_constructors(prop: &str, doc: &Value) -> (Vec<Pair>, usize) {
	let mut v = Vec::new();
	let mut seen = 0usize;
	let region = |t: &str| format!("//<<\n{t}\n//>>");
	for (owner, tr, _ta, name, func) in functions_of(doc, &["BoxedLockCollection", "RefLockCollection", "OwnedLockCollection", "RetryingLockCollection"]) {
		let inputs = func["sig"].get("inputs").and_then(|i| i.as_array()).cloned().unwrap_or_default();
		if inputs.len() != 1 || inputs[0].get(0).and_then(|n| n.as_str()) == Some("self") {
			continue;
		}
		let output = func["sig"].get("output").cloned().unwrap_or(Value::Null);
		let returns_self = output.get("generic").and_then(|g| g.as_str()) == Some("Self")
			|| output.get("resolved_path").and_then(|r| r.get("path")).and_then(|p| p.as_str()).map(|p| p.ends_with(&owner)).unwrap_or(false);
		let mentions_self = {
			fn m(t: &Value, owner: &str) -> bool {
				match t {
					Value::Object(o) => {
						o.get("generic").and_then(|g| g.as_str()) == Some("Self")
							|| o.get("resolved_path").and_then(|r| r.get("path")).and_then(|p| p.as_str()).map(|p| p.ends_with(owner)).unwrap_or(false)
							|| o.values().any(|x| m(x, owner))
					}
					Value::Array(a) => a.iter().any(|x| m(x, owner)),
					_ => false,
				}
			}
			m(&output, &owner)
		};
		if !mentions_self {
			continue;
		}
		seen += 1;
		// kinds other than Owned: only constructors that hand back the collection unchecked
		if owner != "OwnedLockCollection" && !returns_self {
			continue;
		}
		let by_ref = inputs[0][1].get("borrowed_ref").is_some();
		let is_from_iter = name == "from_iter";
		for (lockname, ctor) in [("Mutex", "Mutex::new(0i32)"), ("RwLock", "RwLock::new(0i32)")] {
			let (own_decl, own_arg, bor_arg) = if is_from_iter {
				(String::new(), format!("vec![{ctor}, {ctor}]"), "vec![&a, &a]".to_string())
			} else if by_ref {
				(format!("    let d = ({ctor}, {ctor});\n    let e = (&a, &a);\n"), "&d".to_string(), "&e".to_string())
			} else {
				(String::new(), format!("({ctor}, {ctor})"), "(&a, &a)".to_string())
			};
			let turbofish = if is_from_iter { "::<Vec<_>>" } else { "" };
			let template = format!("{PRELUDE}use happylock::collection::{{BoxedLockCollection, RefLockCollection, OwnedLockCollection, RetryingLockCollection}};\npub fn probe() {{\n    let a = {ctor};\n{own_decl}@@\n}}\n");
			v.push(Pair {
				prop: prop.into(),
				family: "S6-surface-constructor-accepts-borrowed-members".into(),
				name: format!("{owner}::{name}{} over &{lockname}", tr.as_ref().map(|t| format!(" ({t})")).unwrap_or_default()),
				twin: template.replace("@@", &region(&format!("    let _c = {owner}{turbofish}::{name}({own_arg});"))),
				offending: template.replace("@@", &region(&format!("    let _c = {owner}{turbofish}::{name}({bor_arg});"))),
				std_offending: None,
			});
		}
	}
	(v, seen)
}

/// S7 (C10): a safe function of `Poisonable` that takes nothing but `&self` and
/// whose result mentions the wrapped lockable `L` hands out the inner lock:
/// locking that directly never reports the poison.
pub fn families_surface_poisonable_bypass(prop: &str, doc: &Value) -> (Vec<Pair>, usize) {
	fn mentions_l(t: &Value) -> bool {
		match t {
			Value::Object(m) => m.get("generic").and_then(|g| g.as_str()) == Some("L") || m.values().any(mentions_l),
			Value::Array(a) => a.iter().any(mentions_l),
			_ => false,
		}
	}
	let mut v = Vec::new();
	let mut seen = 0usize;
	let region = |t: &str| format!("//<<\n{t}\n//>>");
	for (owner, tr, ta, name, func) in functions_of(doc, &["Poisonable"]) {
		seen += 1;
		let inputs = func["sig"].get("inputs").and_then(|i| i.as_array()).cloned().unwrap_or_default();
		if inputs.len() != 1 || is_self_ref(&inputs[0][1]) != Some(false) {
			continue;
		}
		let output = func["sig"].get("output").cloned().unwrap_or(Value::Null);
		if output.is_null() || output.get("raw_pointer").is_some() || !mentions_l(&output) {
			continue;
		}
		let is_self = inputs[0].get(0).and_then(|n| n.as_str()) == Some("self");
		for (lockname, ctor) in [("Mutex", "Mutex::new(1i32)"), ("RwLock", "RwLock::new(1i32)")] {
			let call = match (&tr, is_self) {
				(Some(t), _) if ["AsRef", "Borrow", "Deref"].contains(&t.as_str()) => {
					let args = if ta > 0 { format!("<{}>", vec!["_"; ta].join(", ")) } else { String::new() };
					format!("<_ as {t}{args}>::{name}(&s)")
				}
				(_, true) => format!("s.{name}()"),
				(_, false) => format!("{owner}::{name}(&s)"),
			};
			let template = format!("{PRELUDE}use std::ops::Deref;\nuse std::borrow::Borrow;\npub fn probe() {{\n    let s = Poisonable::new({ctor});\n@@\n}}\n");
			v.push(Pair {
				prop: prop.into(),
				family: "S7-surface-poisonable-hands-out-its-inner-lock".into(),
				name: format!("{owner}::{name}{} over {lockname}", tr.as_ref().map(|t| format!(" ({t})")).unwrap_or_default()),
				twin: template.replace("@@", &region("    let _p = s.is_poisoned();")),
				offending: template.replace("@@", &region(&format!("    let _inner = {call};"))),
				std_offending: None,
			});
		}
	}
	(v, seen)
}

/// S8 (C14): a safe function of a hold type that takes the hold (by reference)
/// and a closure to which it lends a `ThreadKey`: the key must not be able to
/// leave the closure (the hold is alive again when the function returns).
pub fn families_surface_key_lending(prop: &str, doc: &Value) -> (Vec<Pair>, usize) {
	fn mentions_key(t: &Value) -> bool {
		match t {
			Value::Object(m) => {
				m.get("resolved_path").and_then(|r| r.get("path")).and_then(|p| p.as_str()).map(|p| p.rsplit("::").next() == Some("ThreadKey")).unwrap_or(false)
					|| m.values().any(mentions_key)
			}
			Value::Array(a) => a.iter().any(mentions_key),
			_ => false,
		}
	}
	/// a closure-typed parameter (impl Fn* / generic bound) whose arguments mention ThreadKey
	fn lends_key(t: &Value) -> bool {
		match t {
			Value::Object(m) => {
				if let Some(p) = m.get("parenthesized") {
					if p.get("inputs").map(mentions_key).unwrap_or(false) {
						return true;
					}
				}
				m.values().any(lends_key)
			}
			Value::Array(a) => a.iter().any(lends_key),
			_ => false,
		}
	}
	let mut v = Vec::new();
	let mut seen = 0usize;
	let region = |t: &str| format!("//<<\n{t}\n//>>");
	for (owner, _tr, _ta, name, func) in functions_of(doc, &HOLD_TYPES) {
		seen += 1;
		let inputs = func["sig"].get("inputs").and_then(|i| i.as_array()).cloned().unwrap_or_default();
		if inputs.len() != 2 {
			continue;
		}
		let Some(is_mut) = is_self_ref(&inputs[0][1]) else { continue };
		// the closure may be `impl Fn..` in argument position or a generic with a where clause
		let closure_ty = &inputs[1][1];
		let generics = func.get("generics").cloned().unwrap_or(Value::Null);
		if !(lends_key(closure_ty) || (closure_ty.get("generic").is_some() && lends_key(&generics))) {
			continue;
		}
		let is_self = inputs[0].get(0).and_then(|n| n.as_str()) == Some("self");
		for lock in [LockTy::Mutex, LockTy::RwLock] {
			let Some(h) = holder(&owner, lock) else { continue };
			let amp = if is_mut { "&mut " } else { "&" };
			let call = |body: &str| if is_self { format!("{}.{name}({body})", h.recv) } else { format!("{owner}::{name}({amp}{}, {body})", h.recv) };
			let body = format!("    let key = ThreadKey::get().unwrap();\n    {}\n    let other = Mutex::new(0u8);\n    let mut g = {};\n{}@@\n", h.decl, h.acquire, h.pre);
			let template = format!("{PRELUDE}pub fn probe() {{\n{body}\n}}\n");
			v.push(Pair {
				prop: prop.into(),
				family: "S8-surface-lent-key-leaves-the-closure".into(),
				name: format!("{owner}::{name} on {lock:?}"),
				twin: template.replace("@@", &region(&format!("    {};", call("|k| { other.scoped_lock(k, |_y| ()); }")))),
				offending: template.replace("@@", &region(&format!("    let k = {};\n    other.scoped_lock(k, |_y| ());", call("|k| k")))),
				std_offending: None,
			});
		}
	}
	(v, seen)
}
