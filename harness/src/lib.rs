pub fn hello() {}
