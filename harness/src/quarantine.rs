//! A tiny "quarantine" global allocator for the C16 scenarios: while a scenario
//! runs on a thread, frees are postponed (the memory stays valid) and a second
//! free of the same block is recorded instead of corrupting the heap.  This
//! turns a double free / use-after-free of BoxedLockCollection's heap cell into
//! a deterministic finding (the drop counters still tick) instead of a crash.

use std::alloc::{GlobalAlloc, Layout, System};
use std::cell::UnsafeCell;
use std::sync::atomic::{AtomicUsize, Ordering};

// ---------------------------------------------------------------------------
// Deterministic placement of world allocations ("bump mode").
//
// happylock's sorting collections order locks by address, so what a case means
// depends on where its by-value members land on the heap.  While a world is
// being built, allocations of the building thread are served from a private
// region in a way that is a pure function of the case: allocation k goes to the
// bottom (ascending) or to the top (descending) of the region depending on the
// case's `layout` bytes.  Frees of region memory are no-ops; a region is reused
// by the next world built on the same thread (the previous world is gone by
// then, or the region is abandoned).

const REGION_SIZE: usize = 1 << 20;
/// regions live in one contiguous arena (reserved lazily, committed page by
/// page when touched), so "is this pointer region memory" is one comparison
const MAX_REGIONS: usize = 1024;
const BUMP_MAX_ALLOC: usize = 1 << 16;

static ARENA: AtomicUsize = AtomicUsize::new(0);
static ARENA_INIT: AtomicUsize = AtomicUsize::new(0);
/// 0 = free, 1 = leased to a thread (or abandoned for good)
static SLOTS: [AtomicUsize; MAX_REGIONS] = [const { AtomicUsize::new(0) }; MAX_REGIONS];
static SLOT_HINT: AtomicUsize = AtomicUsize::new(0);
static CLAIMED: AtomicUsize = AtomicUsize::new(0);
static ABANDONED_LIVE: AtomicUsize = AtomicUsize::new(0);

/// (regions claimed, regions given up because blocks in them were still alive)
pub fn region_stats() -> (usize, usize) {
	(CLAIMED.load(Ordering::Relaxed), ABANDONED_LIVE.load(Ordering::Relaxed))
}
/// per region: blocks handed out minus blocks given back.  A region whose count
/// is not zero when its owner wants to start over still has live blocks in it
/// (a leak on purpose, or a cache the library keeps between calls): it is
/// never reused.
static LIVE: [std::sync::atomic::AtomicIsize; MAX_REGIONS] = [const { std::sync::atomic::AtomicIsize::new(0) }; MAX_REGIONS];
/// set by the first allocation that goes through `QuarantineAlloc`: without it
/// as the global allocator (fuzz targets) no arena is reserved at all
static INSTALLED: AtomicUsize = AtomicUsize::new(0);

struct Bump {
	base: usize,
	/// the slot is this thread's own (returned to the pool when the thread exits)
	owned: bool,
	lo: usize,
	hi: usize,
	active: bool,
	count: usize,
	layout: [u8; 32],
	layout_len: usize,
}

struct BCell(UnsafeCell<Bump>);
unsafe impl Sync for BCell {}

impl Drop for BCell {
	fn drop(&mut self) {
		let b = self.0.get_mut();
		if b.base != 0 && b.owned {
			release_slot(b.base);
		}
		b.base = 0;
	}
}

thread_local! {
	static B: BCell = const { BCell(UnsafeCell::new(Bump { base: 0, owned: false, lo: 0, hi: 0, active: false, count: 0, layout: [0; 32], layout_len: 0 })) };
}

fn arena() -> usize {
	let a = ARENA.load(Ordering::Acquire);
	if a != 0 {
		return a;
	}
	// one thread reserves, the others wait for it
	if ARENA_INIT.compare_exchange(0, 1, Ordering::AcqRel, Ordering::Acquire).is_ok() {
		let p = unsafe { System.alloc(Layout::from_size_align_unchecked(REGION_SIZE * MAX_REGIONS, 4096)) } as usize;
		ARENA.store(if p == 0 { usize::MAX } else { p }, Ordering::Release);
	}
	loop {
		let a = ARENA.load(Ordering::Acquire);
		if a != 0 {
			return a;
		}
		std::hint::spin_loop();
	}
}

fn claim_slot() -> usize {
	let a = arena();
	if a == usize::MAX {
		return 0;
	}
	let start = SLOT_HINT.load(Ordering::Relaxed);
	for k in 0..MAX_REGIONS {
		let i = (start + k) % MAX_REGIONS;
		if SLOTS[i].compare_exchange(0, 1, Ordering::AcqRel, Ordering::Relaxed).is_ok() {
			CLAIMED.fetch_add(1, Ordering::Relaxed);
			SLOT_HINT.store(i + 1, Ordering::Relaxed);
			return a + i * REGION_SIZE;
		}
	}
	0
}

fn release_slot(base: usize) {
	let a = ARENA.load(Ordering::Acquire);
	if a == 0 || a == usize::MAX || base < a {
		return;
	}
	let i = (base - a) / REGION_SIZE;
	if i < MAX_REGIONS && LIVE[i].load(Ordering::Relaxed) == 0 {
		SLOTS[i].store(0, Ordering::Release);
	}
}

#[inline]
fn slot_of(p: usize) -> Option<usize> {
	let a = ARENA.load(Ordering::Relaxed);
	if a == 0 || a == usize::MAX || p < a {
		return None;
	}
	let i = (p - a) / REGION_SIZE;
	if i < MAX_REGIONS {
		Some(i)
	} else {
		None
	}
}

#[inline]
fn in_region(p: usize) -> bool {
	let a = ARENA.load(Ordering::Relaxed);
	a != 0 && a != usize::MAX && p >= a && p < a + REGION_SIZE * MAX_REGIONS
}

unsafe fn bump_alloc(layout: Layout) -> *mut u8 {
	B.try_with(|b| {
		let b = &mut *b.0.get();
		if !b.active || layout.size() > BUMP_MAX_ALLOC || layout.size() == 0 {
			return std::ptr::null_mut();
		}
		let k = b.count;
		b.count += 1;
		let from_top = b.layout_len > 0 && (b.layout[k % b.layout_len] & 1) == 1;
		let align = layout.align().max(16);
		if from_top {
			let p = (b.hi - layout.size()) & !(align - 1);
			if p < b.lo {
				return std::ptr::null_mut();
			}
			b.hi = p;
			if let Some(i) = slot_of(p) {
				LIVE[i].fetch_add(1, Ordering::Relaxed);
			}
			p as *mut u8
		} else {
			let p = (b.lo + align - 1) & !(align - 1);
			if p + layout.size() > b.hi {
				return std::ptr::null_mut();
			}
			b.lo = p + layout.size();
			if let Some(i) = slot_of(p) {
				LIVE[i].fetch_add(1, Ordering::Relaxed);
			}
			p as *mut u8
		}
	})
	.unwrap_or(std::ptr::null_mut())
}

/// This thread's region (claimed on first use, returned to the pool when the
/// thread exits); 0 = none available (placement is then up to the system
/// allocator, i.e. not a function of the case).
pub fn my_region() -> usize {
	if INSTALLED.load(Ordering::Relaxed) == 0 {
		return 0;
	}
	B.with(|b| unsafe {
		let b = &mut *b.0.get();
		if b.base == 0 {
			let p = claim_slot();
			if p != 0 {
				b.base = p;
				b.owned = true;
			}
		}
		b.base
	})
}

/// Run `f` (a world build) with this thread's allocations placed
/// deterministically according to `layout`.  Without the quarantine allocator
/// installed as the global allocator (fuzz targets) this is just `f()`.
pub fn with_bump<T>(layout: &[u8], f: impl FnOnce() -> T) -> T {
	let mut base = my_region();
	// starting over in a region overwrites whatever the previous world left
	// there: only if nothing of it is still alive
	if base != 0 {
		if let Some(i) = slot_of(base) {
			if LIVE[i].load(Ordering::Relaxed) != 0 {
				ABANDONED_LIVE.fetch_add(1, Ordering::Relaxed);
				abandon_region();
				base = my_region();
			}
		}
	}
	with_bump_at(base, layout, f)
}

/// Like `with_bump`, in a region that belongs to another thread (a world built
/// by a helper thread on behalf of `base`'s owner, who keeps the world).
pub fn with_bump_at<T>(base: usize, layout: &[u8], f: impl FnOnce() -> T) -> T {
	B.with(|b| unsafe {
		let b = &mut *b.0.get();
		if base != 0 {
			if b.base != base {
				if b.base != 0 && b.owned {
					release_slot(b.base);
				}
				b.base = base;
				b.owned = false;
			}
			b.lo = base;
			b.hi = base + REGION_SIZE;
			b.count = 0;
			b.layout_len = layout.len().min(32);
			b.layout[..b.layout_len].copy_from_slice(&layout[..b.layout_len]);
			b.active = true;
		}
	});
	let r = f();
	B.with(|b| unsafe {
		(*b.0.get()).active = false;
	});
	r
}

/// The world built in this thread's region may still be referenced (a logical
/// thread could not be joined): never reuse the region (its slot stays taken).
pub fn abandon_region() {
	B.with(|b| unsafe {
		let b = &mut *b.0.get();
		b.base = 0;
		b.owned = false;
	});
}

const CAP: usize = 2048;

struct Quar {
	active: bool,
	len: usize,
	double_free: bool,
	overflow: bool,
	ptrs: [(usize, usize, usize); CAP],
}

struct QCell(UnsafeCell<Quar>);
// only ever touched by its own thread
unsafe impl Sync for QCell {}

thread_local! {
	static Q: QCell = const { QCell(UnsafeCell::new(Quar { active: false, len: 0, double_free: false, overflow: false, ptrs: [(0, 0, 0); CAP] })) };
}

pub struct QuarantineAlloc;

unsafe impl GlobalAlloc for QuarantineAlloc {
	unsafe fn alloc(&self, layout: Layout) -> *mut u8 {
		if INSTALLED.load(Ordering::Relaxed) == 0 {
			INSTALLED.store(1, Ordering::Relaxed);
		}
		let p = bump_alloc(layout);
		if !p.is_null() {
			return p;
		}
		System.alloc(layout)
	}
	unsafe fn alloc_zeroed(&self, layout: Layout) -> *mut u8 {
		let p = bump_alloc(layout);
		if !p.is_null() {
			std::ptr::write_bytes(p, 0, layout.size());
			return p;
		}
		System.alloc_zeroed(layout)
	}
	unsafe fn realloc(&self, ptr: *mut u8, layout: Layout, new_size: usize) -> *mut u8 {
		if in_region(ptr as usize) {
			let new_layout = Layout::from_size_align_unchecked(new_size, layout.align());
			let np = self.alloc(new_layout);
			if !np.is_null() {
				if let Some(i) = slot_of(ptr as usize) {
					LIVE[i].fetch_sub(1, Ordering::Relaxed);
				}
			}
			if !np.is_null() {
				std::ptr::copy_nonoverlapping(ptr, np, layout.size().min(new_size));
			}
			return np;
		}
		System.realloc(ptr, layout, new_size)
	}
	unsafe fn dealloc(&self, ptr: *mut u8, layout: Layout) {
		if in_region(ptr as usize) {
			if let Some(i) = slot_of(ptr as usize) {
				LIVE[i].fetch_sub(1, Ordering::Relaxed);
			}
			return;
		}
		let handled = Q
			.try_with(|q| {
				let q = &mut *q.0.get();
				if !q.active {
					return false;
				}
				let p = ptr as usize;
				for i in 0..q.len {
					if q.ptrs[i].0 == p {
						q.double_free = true;
						return true;
					}
				}
				if q.len < CAP {
					q.ptrs[q.len] = (p, layout.size(), layout.align());
					q.len += 1;
					true
				} else {
					q.overflow = true;
					false
				}
			})
			.unwrap_or(false);
		if !handled {
			System.dealloc(ptr, layout);
		}
	}
}

/// Run `f` with frees quarantined on this thread; returns (result, double free seen).
pub fn with_quarantine<T>(f: impl FnOnce() -> T) -> (T, bool) {
	Q.with(|q| unsafe {
		let q = &mut *q.0.get();
		q.active = true;
		q.len = 0;
		q.double_free = false;
		q.overflow = false;
	});
	let r = f();
	let df = Q.with(|q| unsafe {
		let q = &mut *q.0.get();
		q.active = false;
		let df = q.double_free;
		for i in 0..q.len {
			let (p, size, align) = q.ptrs[i];
			System.dealloc(p as *mut u8, Layout::from_size_align_unchecked(size, align));
		}
		q.len = 0;
		df
	});
	(r, df)
}
