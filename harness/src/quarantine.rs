//! A tiny "quarantine" global allocator for the C16 scenarios: while a scenario
//! runs on a thread, frees are postponed (the memory stays valid) and a second
//! free of the same block is recorded instead of corrupting the heap.  This
//! turns a double free / use-after-free of BoxedLockCollection's heap cell into
//! a deterministic finding (the drop counters still tick) instead of a crash.

use std::alloc::{GlobalAlloc, Layout, System};
use std::cell::UnsafeCell;

const CAP: usize = 2048;

struct Quar {
	active: bool,
	len: usize,
	double_free: bool,
	overflow: bool,
	ptrs: [(usize, usize, usize); CAP],
}

struct QCell(UnsafeCell<Quar>);
// only ever touched by its own thread
unsafe impl Sync for QCell {}

thread_local! {
	static Q: QCell = const { QCell(UnsafeCell::new(Quar { active: false, len: 0, double_free: false, overflow: false, ptrs: [(0, 0, 0); CAP] })) };
}

pub struct QuarantineAlloc;

unsafe impl GlobalAlloc for QuarantineAlloc {
	unsafe fn alloc(&self, layout: Layout) -> *mut u8 {
		System.alloc(layout)
	}
	unsafe fn alloc_zeroed(&self, layout: Layout) -> *mut u8 {
		System.alloc_zeroed(layout)
	}
	unsafe fn realloc(&self, ptr: *mut u8, layout: Layout, new_size: usize) -> *mut u8 {
		System.realloc(ptr, layout, new_size)
	}
	unsafe fn dealloc(&self, ptr: *mut u8, layout: Layout) {
		let handled = Q
			.try_with(|q| {
				let q = &mut *q.0.get();
				if !q.active {
					return false;
				}
				let p = ptr as usize;
				for i in 0..q.len {
					if q.ptrs[i].0 == p {
						q.double_free = true;
						return true;
					}
				}
				if q.len < CAP {
					q.ptrs[q.len] = (p, layout.size(), layout.align());
					q.len += 1;
					true
				} else {
					q.overflow = true;
					false
				}
			})
			.unwrap_or(false);
		if !handled {
			System.dealloc(ptr, layout);
		}
	}
}

/// Run `f` with frees quarantined on this thread; returns (result, double free seen).
pub fn with_quarantine<T>(f: impl FnOnce() -> T) -> (T, bool) {
	Q.with(|q| unsafe {
		let q = &mut *q.0.get();
		q.active = true;
		q.len = 0;
		q.double_free = false;
		q.overflow = false;
	});
	let r = f();
	let df = Q.with(|q| unsafe {
		let q = &mut *q.0.get();
		q.active = false;
		let df = q.double_free;
		for i in 0..q.len {
			let (p, size, align) = q.ptrs[i];
			System.dealloc(p as *mut u8, Layout::from_size_align_unchecked(size, align));
		}
		q.len = 0;
		df
	});
	(r, df)
}
