//! Structural minimiser: second shrinking stage on the *decoded* case.  After
//! proptest has shrunk the byte vector, steps, body operations, threads,
//! schedule choices, collections and leaves that are not needed for the
//! violation are removed greedily (each candidate is re-run through the same
//! oracle), to a fixpoint.

use crate::case::*;
use crate::world::*;

fn target_coll(t: &TargetRef) -> Option<usize> {
	match t {
		TargetRef::Coll(c) => Some(*c),
		_ => None,
	}
}

fn step_targets(s: &Step) -> Vec<TargetRef> {
	let mut v = Vec::new();
	match s {
		Step::Acquire { target, .. } | Step::IsPoisoned { target } | Step::ClearPoison { target } | Step::Accessors { target } => v.push(*target),
		Step::Debug { target, .. } => v.push(*target),
		Step::Scoped { target, body, .. } => {
			v.push(*target);
			for b in body {
				if let BodyOp::DebugTarget(t) = b {
					v.push(*t);
				}
			}
		}
		Step::GuardOps { ops } => {
			for b in ops {
				if let BodyOp::DebugTarget(t) = b {
					v.push(*t);
				}
			}
		}
		Step::ProbeFaulted { fallback } => v.push(*fallback),
		Step::UnwindingDrop { inner } => v.extend(step_targets(inner)),
		Step::Kill { leaf } => v.push(TargetRef::Leaf(*leaf)),
		_ => {}
	}
	v
}

fn step_members(s: &Step) -> Vec<MemberSpec> {
	match s {
		Step::TempColl { members, .. } => members.clone(),
		Step::MutateThenLock { members, pushed, .. } => {
			let mut m = members.clone();
			m.push(pushed.clone());
			m
		}
		_ => vec![],
	}
}

fn map_target(t: &mut TargetRef, leaf_map: &dyn Fn(usize) -> usize, coll_map: &dyn Fn(usize) -> usize) {
	match t {
		TargetRef::Leaf(i) => *i = leaf_map(*i),
		TargetRef::Coll(c) => *c = coll_map(*c),
	}
}

fn map_member(m: &mut MemberSpec, leaf_map: &dyn Fn(usize) -> usize, coll_map: &dyn Fn(usize) -> usize) {
	match m {
		MemberSpec::Leaf(i) | MemberSpec::Wrap(i) | MemberSpec::EmptyOwnedAt(i) => *i = leaf_map(*i),
		MemberSpec::Coll(j) => *j = coll_map(*j),
		MemberSpec::Inner(j, _) => *j = coll_map(*j),
		MemberSpec::Own(_) => {}
	}
}

fn map_step(s: &mut Step, leaf_map: &dyn Fn(usize) -> usize, coll_map: &dyn Fn(usize) -> usize, lock_map: &dyn Fn(u32) -> u32) {
	match s {
		Step::Acquire { target, .. } | Step::IsPoisoned { target } | Step::ClearPoison { target } | Step::Accessors { target } => map_target(target, leaf_map, coll_map),
		Step::Debug { target, .. } => map_target(target, leaf_map, coll_map),
		Step::Scoped { target, body, .. } => {
			map_target(target, leaf_map, coll_map);
			for b in body.iter_mut() {
				if let BodyOp::DebugTarget(t) = b {
					map_target(t, leaf_map, coll_map);
				}
			}
		}
		Step::GuardOps { ops } => {
			for b in ops.iter_mut() {
				if let BodyOp::DebugTarget(t) = b {
					map_target(t, leaf_map, coll_map);
				}
			}
		}
		Step::ProbeFaulted { fallback } => map_target(fallback, leaf_map, coll_map),
		Step::PhantomHold { leaf, .. } | Step::PhantomRelease { leaf } => *leaf = lock_map(*leaf),
		Step::UnwindingDrop { inner } => map_step(inner, leaf_map, coll_map, lock_map),
		Step::Kill { leaf } => *leaf = leaf_map(*leaf),
		Step::TempColl { members, .. } => {
			for m in members.iter_mut() {
				map_member(m, leaf_map, coll_map);
			}
		}
		Step::MutateThenLock { members, pushed, .. } => {
			for m in members.iter_mut() {
				map_member(m, leaf_map, coll_map);
			}
			map_member(pushed, leaf_map, coll_map);
		}
		_ => {}
	}
}

/// number of by-value leaves declared by collection `c`
fn byval_leaves(c: &CollSpec) -> usize {
	fn count(m: &OMemberSpec) -> usize {
		match m {
			OMemberSpec::Leaf(_) => 1,
			OMemberSpec::Coll(oc) => oc.members.iter().map(count).sum(),
		}
	}
	match &c.content {
		Content::ByVal(ms) => ms.iter().map(count).sum(),
		Content::ByRef(ms) => ms.iter().filter(|m| matches!(m, MemberSpec::Own(_))).count(),
	}
}

/// Remove collection `ci` (must be unreferenced) and renumber.
fn remove_coll(world: &mut WorldSpec, steps: &mut [&mut Step], ci: usize) {
	let nleaf = world.leaves.len();
	// lock ids of by-value leaves: standalone first, then per collection in order
	let mut first_id = nleaf;
	for c in &world.colls[..ci] {
		first_id += byval_leaves(c);
	}
	let removed = byval_leaves(&world.colls[ci]);
	world.colls.remove(ci);
	let coll_map = |c: usize| if c > ci { c - 1 } else { c };
	let leaf_map = |l: usize| l;
	let lock_map = |l: u32| {
		if (l as usize) >= first_id + removed {
			l - removed as u32
		} else {
			l
		}
	};
	for c in world.colls.iter_mut() {
		if let Content::ByRef(ms) = &mut c.content {
			for m in ms.iter_mut() {
				map_member(m, &leaf_map, &coll_map);
			}
		}
	}
	for s in steps.iter_mut() {
		map_step(s, &leaf_map, &coll_map, &lock_map);
	}
}

fn remove_leaf(world: &mut WorldSpec, steps: &mut [&mut Step], li: usize) {
	world.leaves.remove(li);
	let coll_map = |c: usize| c;
	let leaf_map = |l: usize| if l > li { l - 1 } else { l };
	let lock_map = |l: u32| if (l as usize) > li { l - 1 } else { l };
	for c in world.colls.iter_mut() {
		if let Content::ByRef(ms) = &mut c.content {
			for m in ms.iter_mut() {
				map_member(m, &leaf_map, &coll_map);
			}
		}
	}
	for s in steps.iter_mut() {
		map_step(s, &leaf_map, &coll_map, &lock_map);
	}
}

fn referenced(world: &WorldSpec, steps: &[&Step]) -> (Vec<bool>, Vec<bool>) {
	let mut colls = vec![false; world.colls.len()];
	let mut leaves = vec![false; world.leaves.len()];
	let nleaf = world.leaves.len();
	let mut work: Vec<usize> = Vec::new();
	let mark_member = |m: &MemberSpec, colls: &mut Vec<bool>, leaves: &mut Vec<bool>, work: &mut Vec<usize>| match m {
		MemberSpec::Leaf(i) | MemberSpec::Wrap(i) | MemberSpec::EmptyOwnedAt(i) => {
			if *i < leaves.len() {
				leaves[*i] = true;
			}
		}
		MemberSpec::Coll(j) | MemberSpec::Inner(j, _) => {
			if *j < colls.len() && !colls[*j] {
				colls[*j] = true;
				work.push(*j);
			}
		}
		MemberSpec::Own(_) => {}
	};
	// lock id -> owning collection (for phantom holds on by-value leaves)
	let mut owner: Vec<Option<usize>> = vec![None; nleaf];
	for (ci, c) in world.colls.iter().enumerate() {
		for _ in 0..byval_leaves(c) {
			owner.push(Some(ci));
		}
	}
	for s in steps {
		for t in step_targets(s) {
			match t {
				TargetRef::Leaf(i) => {
					if i < leaves.len() {
						leaves[i] = true;
					}
				}
				TargetRef::Coll(c) => {
					if c < colls.len() && !colls[c] {
						colls[c] = true;
						work.push(c);
					}
				}
			}
		}
		for m in step_members(s) {
			mark_member(&m, &mut colls, &mut leaves, &mut work);
		}
		if let Step::PhantomHold { leaf, .. } | Step::PhantomRelease { leaf } = s {
			let l = *leaf as usize;
			if l < nleaf {
				leaves[l] = true;
			} else if let Some(Some(c)) = owner.get(l) {
				if !colls[*c] {
					colls[*c] = true;
					work.push(*c);
				}
			}
		}
	}
	while let Some(c) = work.pop() {
		if let Content::ByRef(ms) = &world.colls[c].content {
			for m in ms.clone() {
				mark_member(&m, &mut colls, &mut leaves, &mut work);
			}
		}
	}
	let _ = target_coll;
	(colls, leaves)
}

/// remove up to `limit` unreferenced collections / leaves (highest index first,
/// skipping the first `skip` removable ones)
fn prune_world(world: &mut WorldSpec, steps: &mut Vec<&mut Step>, skip: usize, limit: usize) -> bool {
	let mut changed = false;
	let mut removed = 0usize;
	loop {
		if removed >= limit {
			break;
		}
		let view: Vec<&Step> = steps.iter().map(|s| &**s).collect();
		let (colls, leaves) = referenced(world, &view);
		let mut cands: Vec<(bool, usize)> = (0..colls.len()).rev().filter(|c| !colls[*c]).map(|c| (true, c)).collect();
		if world.leaves.len() > 1 {
			cands.extend((0..leaves.len()).rev().filter(|l| !leaves[*l]).map(|l| (false, l)));
		}
		match cands.get(skip) {
			Some((true, ci)) => remove_coll(world, steps, *ci),
			Some((false, li)) => {
				if world.leaves.len() <= 1 {
					break;
				}
				remove_leaf(world, steps, *li)
			}
			None => break,
		}
		changed = true;
		removed += 1;
	}
	changed
}

pub fn minimize_seq(case: &SeqCase, fails: &dyn Fn(&SeqCase) -> bool) -> SeqCase {
	let mut best = case.clone();
	let mut budget = 1000usize;
	let attempt = |cand: SeqCase, best: &mut SeqCase, budget: &mut usize| -> bool {
		if *budget == 0 || Sem::valid(&cand.world).is_err() {
			return false;
		}
		*budget -= 1;
		if fails(&cand) {
			*best = cand;
			true
		} else {
			false
		}
	};
	loop {
		let mut progress = false;
		// drop steps (never the one the fault is attached to)
		let mut i = best.steps.len();
		while i > 0 {
			i -= 1;
			if let Some(f) = &best.fault {
				if f.at_step == i {
					continue;
				}
			}
			let mut cand = best.clone();
			cand.steps.remove(i);
			if let Some(f) = cand.fault.as_mut() {
				if f.at_step > i {
					f.at_step -= 1;
				}
			}
			if attempt(cand, &mut best, &mut budget) {
				progress = true;
			}
		}
		// drop body operations
		for i in 0..best.steps.len() {
			let nb = match &best.steps[i].1 {
				Step::Scoped { body, .. } => body.len(),
				Step::GuardOps { ops } => ops.len(),
				_ => 0,
			};
			for b in (0..nb).rev() {
				let mut cand = best.clone();
				match &mut cand.steps[i].1 {
					Step::Scoped { body, .. } => {
						body.remove(b);
					}
					Step::GuardOps { ops } => {
						ops.remove(b);
					}
					_ => {}
				}
				if attempt(cand, &mut best, &mut budget) {
					progress = true;
				}
			}
		}
		// fewer threads
		if best.nthreads > 1 && best.steps.iter().all(|(t, _)| (*t as usize) % (best.nthreads as usize) == 0) {
			let mut cand = best.clone();
			cand.nthreads = 1;
			if attempt(cand, &mut best, &mut budget) {
				progress = true;
			}
		}
		// unreferenced collections and leaves
		{
			let mut cand = best.clone();
			let changed = {
				let mut refs: Vec<&mut Step> = cand.steps.iter_mut().map(|(_, s)| s).collect();
				prune_world(&mut cand.world, &mut refs, 0, usize::MAX)
			};
			if changed && attempt(cand, &mut best, &mut budget) {
				progress = true;
			} else if changed {
				// one at a time
				let mut skip = 0;
				loop {
					let mut cand = best.clone();
					let changed = {
						let mut refs: Vec<&mut Step> = cand.steps.iter_mut().map(|(_, s)| s).collect();
						prune_world(&mut cand.world, &mut refs, skip, 1)
					};
					if !changed || budget == 0 {
						break;
					}
					if attempt(cand, &mut best, &mut budget) {
						progress = true;
					} else {
						skip += 1;
					}
				}
			}
		}
		// simplest heap layout
		if !best.world.layout.is_empty() {
			let mut cand = best.clone();
			cand.world.layout.clear();
			if attempt(cand, &mut best, &mut budget) {
				progress = true;
			}
		}
		if !progress || budget == 0 {
			break;
		}
	}
	best
}

pub fn minimize_conc(case: &ConcCase, fails: &dyn Fn(&ConcCase) -> bool) -> ConcCase {
	let mut best = case.clone();
	let mut budget = 1500usize;
	let attempt = |cand: ConcCase, best: &mut ConcCase, budget: &mut usize| -> bool {
		if *budget == 0 || cand.programs.is_empty() || Sem::valid(&cand.world).is_err() {
			return false;
		}
		*budget -= 1;
		if fails(&cand) {
			*best = cand;
			true
		} else {
			false
		}
	};
	loop {
		let mut progress = false;
		// whole threads
		let mut t = best.programs.len();
		while t > 0 && best.programs.len() > 1 {
			t -= 1;
			let mut cand = best.clone();
			cand.programs.remove(t);
			if attempt(cand, &mut best, &mut budget) {
				progress = true;
			}
		}
		// steps
		for t in 0..best.programs.len() {
			let mut i = best.programs[t].len();
			while i > 0 {
				i -= 1;
				let mut cand = best.clone();
				cand.programs[t].remove(i);
					if attempt(cand, &mut best, &mut budget) {
					progress = true;
				}
			}
		}
		// shorter / simpler schedule
		loop {
			let mut cand = best.clone();
			let popped = match cand.forced.as_mut() {
				Some(f) => f.pop().is_some(),
				None => cand.schedule.pop().is_some(),
			};
			if !popped || !attempt(cand, &mut best, &mut budget) {
				break;
			}
			progress = true;
		}
		let nf = best.forced.as_ref().map(|f| f.len()).unwrap_or(0);
		for i in 0..nf {
			if best.forced.as_ref().unwrap()[i] != 0 {
				let mut cand = best.clone();
				cand.forced.as_mut().unwrap()[i] = 0;
				if attempt(cand, &mut best, &mut budget) {
					progress = true;
				}
			}
		}
		// world
		{
			let mut cand = best.clone();
			let changed = {
				let mut refs: Vec<&mut Step> = cand.programs.iter_mut().flat_map(|p| p.iter_mut()).collect();
				prune_world(&mut cand.world, &mut refs, 0, usize::MAX)
			};
			if changed && attempt(cand, &mut best, &mut budget) {
				progress = true;
			} else if changed {
				let mut skip = 0;
				loop {
					let mut cand = best.clone();
					let changed = {
						let mut refs: Vec<&mut Step> = cand.programs.iter_mut().flat_map(|p| p.iter_mut()).collect();
						prune_world(&mut cand.world, &mut refs, skip, 1)
					};
					if !changed || budget == 0 {
						break;
					}
					if attempt(cand, &mut best, &mut budget) {
						progress = true;
					} else {
						skip += 1;
					}
				}
			}
		}
		if best.forced.is_some() && !best.schedule.is_empty() {
			let mut cand = best.clone();
			cand.schedule.clear();
			if attempt(cand, &mut best, &mut budget) {
				progress = true;
			}
		}
		if !best.world.layout.is_empty() {
			let mut cand = best.clone();
			cand.world.layout.clear();
			if attempt(cand, &mut best, &mut budget) {
				progress = true;
			}
		}
		if !progress || budget == 0 {
			break;
		}
	}
	best
}
