//! World specification (serialisable), its reference semantics (flattened
//! leaf positions, units, wrappers) and the builder that turns a spec into
//! live happylock values inside a per-execution arena.

use std::fmt::Debug;

use happylock::collection::{
	BoxedLockCollection as Boxed, OwnedLockCollection as Owned, RefLockCollection as RefC,
	RetryingLockCollection as Retry,
};
use happylock::lockable::{Lockable, Sharable};
use happylock::poisonable::Poisonable;
use happylock::ThreadKey;
use serde::{Deserialize, Serialize};

use crate::exec::Lid;
use crate::leaves::Leaves;
use crate::target::DynTarget;
use crate::types::*;
use crate::vlock::register_with;

#[derive(Clone, Copy, Debug, PartialEq, Eq, Hash, Serialize, Deserialize)]
pub enum LeafTy {
	M,
	R,
}

#[derive(Clone, Copy, Debug, PartialEq, Eq, Hash, Serialize, Deserialize)]
pub struct LeafDecl {
	pub ty: LeafTy,
	/// number of Poisonable layers around the leaf (0..=2)
	pub wraps: u8,
}

#[derive(Clone, Copy, Debug, PartialEq, Eq, Hash, Serialize, Deserialize)]
pub enum KindTag {
	Boxed,
	Ref,
	Owned,
	Retry,
}

#[derive(Clone, Copy, Debug, PartialEq, Eq, Hash, Serialize, Deserialize)]
pub enum Ctor {
	/// K::try_new(container)  /  RefC::try_new(&container)
	TryNew,
	/// K::new(container) (by-value content only)  /  RefC::new(&container)
	New,
	/// Boxed::new_ref(&container) / Retry::new_ref(&container) (by-value content only)
	NewRef,
	/// Boxed::try_new(&container) / Retry::try_new(&container): the checked
	/// constructor given a REFERENCE to the member list (by-reference content only)
	TryNewRef,
}

#[derive(Clone, Copy, Debug, PartialEq, Eq, Hash, Serialize, Deserialize)]
pub enum Cont {
	Vec,
	BoxSlice,
	Array,
	Tuple,
}

#[derive(Clone, Debug, PartialEq, Eq, Hash, Serialize, Deserialize)]
pub enum MemberSpec {
	/// reference to stand-alone leaf `i` (with whatever wrappers it has)
	Leaf(usize),
	/// inline `Poisonable<&leaf_i>` (leaf must have no wrappers of its own)
	Wrap(usize),
	/// reference to an earlier collection of the world
	Coll(usize),
	/// reference to an EMPTY owned collection (`OwnedLockCollection<[_; 0]>`, a
	/// zero-sized value) that sits at the very address of stand-alone leaf `i`,
	/// as a zero-sized tuple field next to a lock can
	EmptyOwnedAt(usize),
	/// reference to by-value member `pos` of earlier collection `coll`
	/// (reached through child(); the collection must be Boxed/Retry/Ref over a
	/// Vec<OMem>, or a by-reference collection whose member `pos` is `Own`)
	Inner(usize, usize),
	/// a lock stored BY VALUE among the references (mixed ownership: in an array
	/// or tuple container it lives inside the collection's own allocation)
	Own(LeafDecl),
}

#[derive(Clone, Debug, PartialEq, Eq, Hash, Serialize, Deserialize)]
pub enum OMemberSpec {
	Leaf(LeafDecl),
	Coll(OCollSpec),
}

#[derive(Clone, Debug, PartialEq, Eq, Hash, Serialize, Deserialize)]
pub struct OCollSpec {
	/// Owned, Boxed or Retry (always K::new(Vec<OMem>))
	pub kind: KindTag,
	/// wrap in Poisonable (Owned only)
	pub pois: bool,
	pub members: Vec<OMemberSpec>,
}

#[derive(Clone, Debug, PartialEq, Eq, Hash, Serialize, Deserialize)]
pub enum Content {
	ByRef(Vec<MemberSpec>),
	ByVal(Vec<OMemberSpec>),
}

#[derive(Clone, Debug, PartialEq, Eq, Hash, Serialize, Deserialize)]
pub struct CollSpec {
	pub kind: KindTag,
	pub ctor: Ctor,
	pub cont: Cont,
	pub content: Content,
	/// wrap the whole collection in a Poisonable (Vec containers only)
	pub pois: bool,
}

#[derive(Clone, Debug, PartialEq, Eq, Hash, Serialize, Deserialize, Default)]
pub struct WorldSpec {
	pub leaves: Vec<LeafDecl>,
	pub colls: Vec<CollSpec>,
	/// placement of the world's heap allocations (bit 0 of byte k mod len:
	/// allocation k goes to the top of the region instead of the bottom);
	/// empty = every allocation at ascending addresses
	#[serde(default)]
	pub layout: Vec<u8>,
}

/// A target a thread can operate on.
#[derive(Clone, Copy, Debug, PartialEq, Eq, Hash, Serialize, Deserialize)]
pub enum TargetRef {
	Leaf(usize),
	Coll(usize),
}

// ---------------------------------------------------------------------------
// reference semantics

/// identity of a Poisonable instance
pub type WrapId = String;

#[derive(Clone, Debug, PartialEq, Eq, Serialize)]
pub struct Pos {
	pub leaf: Lid,
	pub ty: LeafTy,
	/// enclosing Poisonable wrappers, outermost first
	pub wraps: Vec<WrapId>,
	/// id of the outermost owned group the leaf lives in (u32::MAX = none)
	pub group: u32,
}

/// What a value contributes when it is locked / listed.
#[derive(Clone, Debug, Default)]
pub struct Flat {
	/// leaf positions in declared order
	pub pos: Vec<Pos>,
	/// lock units this value contributes when it is listed as a *member*
	/// (what the duplicate check sees): a leaf is a unit, an owned collection
	/// is one unit, boxed/ref/retrying collections contribute their members' units
	pub units: Vec<String>,
	/// every Poisonable wrapper reachable through this value, including ones
	/// that enclose no leaf at all (an empty Poisonable collection)
	pub wrap_set: Vec<WrapId>,
}

impl Flat {
	pub fn note_wraps(&mut self, w: &[WrapId]) {
		for x in w {
			if !self.wrap_set.contains(x) {
				self.wrap_set.push(x.clone());
			}
		}
	}
	pub fn leaves(&self) -> Vec<Lid> {
		self.pos.iter().map(|p| p.leaf).collect()
	}
	pub fn has_mutex(&self) -> bool {
		self.pos.iter().any(|p| p.ty == LeafTy::M)
	}
	fn extend_with(&mut self, other: &Flat, outer_wraps: &[WrapId]) {
		for p in &other.pos {
			let mut w = outer_wraps.to_vec();
			w.extend(p.wraps.iter().cloned());
			self.pos.push(Pos { leaf: p.leaf, ty: p.ty, wraps: w, group: p.group });
		}
		self.units.extend(other.units.iter().cloned());
		self.note_wraps(outer_wraps);
		let ow = other.wrap_set.clone();
		self.note_wraps(&ow);
	}
}

pub fn has_repeat(units: &[String]) -> bool {
	let mut s = std::collections::HashSet::new();
	units.iter().any(|u| !s.insert(u.as_str()))
}

pub struct Sem {
	pub spec: WorldSpec,
	/// per collection: what it contributes when listed as a member of another collection
	pub flats: Vec<Flat>,
	/// per collection: the units among which its own checked constructor looks for duplicates
	pub own_units: Vec<Vec<String>>,
	/// total number of leaf locks (stand-alone + by-value)
	pub nlocks: usize,
	/// for every lock id: owned group id or u32::MAX
	pub group_of: Vec<u32>,
	/// for every lock id: leaf type
	pub ty_of: Vec<LeafTy>,
	/// per collection with by-value content: the contribution of each top-level member
	pub inner_flats: Vec<Vec<Flat>>,
}

fn leaf_wraps(prefix: &str, d: &LeafDecl) -> Vec<WrapId> {
	(0..d.wraps).map(|k| format!("{prefix}.{k}")).collect()
}

impl Sem {
	pub fn new(spec: &WorldSpec) -> Sem {
		let mut sem = Sem {
			spec: spec.clone(),
			flats: Vec::new(),
			own_units: Vec::new(),
			nlocks: spec.leaves.len(),
			group_of: vec![u32::MAX; spec.leaves.len()],
			ty_of: spec.leaves.iter().map(|l| l.ty).collect(),
			inner_flats: Vec::new(),
		};
		let mut next_group = 0u32;
		for (ci, c) in spec.colls.iter().enumerate() {
			let mut flat = Flat::default();
			let mut inner = Vec::new();
			let cw: Vec<WrapId> = if c.pois { vec![format!("C{ci}")] } else { vec![] };
			flat.note_wraps(&cw);
			match &c.content {
				Content::ByRef(ms) => {
					for (mi, m) in ms.iter().enumerate() {
						match m {
							MemberSpec::Leaf(i) => {
								let d = &spec.leaves[*i];
								let mut w = cw.clone();
								w.extend(leaf_wraps(&format!("L{i}"), d));
								flat.note_wraps(&w);
								flat.pos.push(Pos { leaf: *i as Lid, ty: d.ty, wraps: w, group: u32::MAX });
								flat.units.push(format!("l{i}"));
							}
							MemberSpec::Wrap(i) => {
								let d = &spec.leaves[*i];
								let mut w = cw.clone();
								w.push(format!("W{ci}/{mi}"));
								flat.note_wraps(&w);
								flat.pos.push(Pos { leaf: *i as Lid, ty: d.ty, wraps: w, group: u32::MAX });
								flat.units.push(format!("l{i}"));
							}
							// no lock, no unit: nothing in it can be reached twice
							MemberSpec::EmptyOwnedAt(_) => {}
							MemberSpec::Coll(j) => {
								let sub = sem.flats[*j].clone();
								flat.extend_with(&sub, &cw);
							}
							MemberSpec::Inner(j, k) => {
								let sub = sem.inner_flats[*j][*k].clone();
								flat.extend_with(&sub, &cw);
							}
							MemberSpec::Own(d) => {
								let mut f = Flat::default();
								sem.flat_omember(&OMemberSpec::Leaf(d.clone()), &[], u32::MAX, &mut next_group, &format!("C{ci}/{mi}"), &mut f);
								flat.extend_with(&f, &cw);
								while inner.len() < mi {
									inner.push(Flat::default());
								}
								inner.push(f);
							}
						}
					}
					while inner.len() < ms.len() {
						inner.push(Flat::default());
					}
					sem.own_units.push(flat.units.clone());
				}
				Content::ByVal(ms) => {
					// the content of a top-level owned collection is one owned group
					let top_group = if c.kind == KindTag::Owned {
						let g = next_group;
						next_group += 1;
						g
					} else {
						u32::MAX
					};
					for (mi, m) in ms.iter().enumerate() {
						let mut f = Flat::default();
						sem.flat_omember(m, &[], top_group, &mut next_group, &format!("C{ci}/{mi}"), &mut f);
						inner.push(f.clone());
						flat.extend_with(&f, &cw);
					}
					sem.own_units.push(flat.units.clone());
					if c.kind == KindTag::Owned {
						// listed elsewhere, the whole owned collection is one unit
						flat.units = vec![format!("o{ci}")];
					}
				}
			}
			sem.flats.push(flat);
			sem.inner_flats.push(inner);
		}
		sem
	}

	fn flat_omember(
		&mut self,
		m: &OMemberSpec,
		wraps: &[WrapId],
		group: u32,
		next_group: &mut u32,
		path: &str,
		out: &mut Flat,
	) {
		match m {
			OMemberSpec::Leaf(d) => {
				let id = self.nlocks as Lid;
				self.nlocks += 1;
				self.group_of.push(group);
				self.ty_of.push(d.ty);
				let mut w = wraps.to_vec();
				w.extend(leaf_wraps(&format!("{path}L"), d));
				out.note_wraps(&w);
				out.pos.push(Pos { leaf: id, ty: d.ty, wraps: w, group });
				out.units.push(format!("l{id}"));
			}
			OMemberSpec::Coll(oc) => {
				let mut w = wraps.to_vec();
				if oc.pois && oc.kind == KindTag::Owned {
					w.push(format!("{path}P"));
				}
				out.note_wraps(&w);
				let g = if group == u32::MAX && oc.kind == KindTag::Owned {
					let g = *next_group;
					*next_group += 1;
					g
				} else {
					group
				};
				let ustart = out.units.len();
				for (k, sub) in oc.members.iter().enumerate() {
					self.flat_omember(sub, &w, g, next_group, &format!("{path}/{k}"), out);
				}
				if oc.kind == KindTag::Owned {
					// an owned collection is one unit wherever it is listed
					out.units.truncate(ustart);
					out.units.push(format!("o{path}"));
				}
			}
		}
	}

	/// reference verdict of the checked constructor of collection `c`
	pub fn has_duplicate(&self, c: usize) -> bool {
		has_repeat(&self.own_units[c])
	}

	pub fn target_flat(&self, t: TargetRef) -> Flat {
		match t {
			TargetRef::Leaf(i) => {
				let d = &self.spec.leaves[i];
				Flat {
					pos: vec![Pos {
						leaf: i as Lid,
						ty: d.ty,
						wraps: leaf_wraps(&format!("L{i}"), d),
						group: u32::MAX,
					}],
					units: vec![format!("l{i}")],
					wrap_set: leaf_wraps(&format!("L{i}"), d),
				}
			}
			TargetRef::Coll(c) => self.flats[c].clone(),
		}
	}

	/// can `read` be requested on this target?
	pub fn sharable(&self, t: TargetRef) -> bool {
		!self.target_flat(t).has_mutex()
	}

	pub fn is_retry_target(&self, t: TargetRef) -> bool {
		matches!(t, TargetRef::Coll(c) if self.spec.colls[c].kind == KindTag::Retry)
	}

	/// Is collection `c` usable as a `MemberSpec::Coll` of a later collection?
	pub fn nestable(c: &CollSpec) -> bool {
		if c.cont != Cont::Vec {
			return false;
		}
		match (&c.content, c.kind, c.ctor, c.pois) {
			(Content::ByRef(_), KindTag::Boxed | KindTag::Retry, Ctor::TryNew, _) => true,
			(Content::ByRef(_), KindTag::Ref, Ctor::TryNew, false) => true,
			(Content::ByVal(_), KindTag::Owned, Ctor::New, _) => true,
			(Content::ByVal(_), KindTag::Boxed | KindTag::Retry, Ctor::New | Ctor::TryNew, false) => true,
			(Content::ByVal(_), KindTag::Ref, Ctor::New | Ctor::TryNew, false) => true,
			_ => false,
		}
	}

	/// Can by-value members of collection `c` be referenced from outside (child())?
	pub fn inner_accessible(c: &CollSpec) -> bool {
		c.cont == Cont::Vec
			&& !c.pois
			&& matches!(c.content, Content::ByVal(_))
			&& matches!(c.kind, KindTag::Boxed | KindTag::Retry | KindTag::Ref)
			&& c.ctor != Ctor::NewRef
	}

	/// Can member `k` of collection `c` be referenced from outside (child())?
	pub fn inner_member_accessible(c: &CollSpec, k: usize) -> bool {
		match &c.content {
			Content::ByVal(ms) => Sem::inner_accessible(c) && k < ms.len(),
			Content::ByRef(ms) => !c.pois && matches!(ms.get(k), Some(MemberSpec::Own(_))),
		}
	}

	pub fn valid(spec: &WorldSpec) -> Result<(), String> {
		for (i, l) in spec.leaves.iter().enumerate() {
			if l.wraps > 2 {
				return Err(format!("leaf {i}: too many wrappers"));
			}
		}
		for (ci, c) in spec.colls.iter().enumerate() {
			let n = match &c.content {
				Content::ByRef(m) => m.len(),
				Content::ByVal(m) => m.len(),
			};
			match c.cont {
				Cont::Array if n > 4 => return Err(format!("coll {ci}: array too long")),
				Cont::Tuple if n == 0 || n > 7 => return Err(format!("coll {ci}: tuple arity")),
				_ => {}
			}
			if c.pois {
				let ok = c.cont == Cont::Vec
					&& matches!(
						(&c.content, c.kind, c.ctor),
						(Content::ByRef(_), KindTag::Boxed | KindTag::Retry | KindTag::Ref, Ctor::TryNew)
							| (Content::ByVal(_), KindTag::Owned, Ctor::New)
					);
				if !ok {
					return Err(format!("coll {ci}: pois not supported for this shape"));
				}
			}
			match (&c.content, c.kind, c.ctor) {
				(Content::ByRef(_), KindTag::Owned, _) => return Err(format!("coll {ci}: owned by ref")),
				(Content::ByRef(_), _, Ctor::TryNew) => {}
				(Content::ByRef(_), KindTag::Boxed | KindTag::Retry, Ctor::TryNewRef) if !c.pois => {}
				(Content::ByRef(_), _, _) => return Err(format!("coll {ci}: by-ref content needs try_new")),
				(Content::ByVal(_), KindTag::Owned, Ctor::New) => {}
				(Content::ByVal(_), KindTag::Owned, _) => return Err(format!("coll {ci}: owned ctor")),
				(Content::ByVal(_), KindTag::Ref, Ctor::NewRef) => return Err(format!("coll {ci}: ref new_ref")),
				(Content::ByVal(_), _, Ctor::TryNewRef) => return Err(format!("coll {ci}: try_new(&list) is for by-reference content")),
				(Content::ByVal(_), _, _) => {}
			}
			if let Content::ByRef(ms) = &c.content {
				for m in ms {
					match m {
						MemberSpec::Leaf(i) => {
							if *i >= spec.leaves.len() {
								return Err(format!("coll {ci}: leaf {i} out of range"));
							}
						}
						MemberSpec::Wrap(i) => {
							if *i >= spec.leaves.len() || spec.leaves[*i].wraps != 0 {
								return Err(format!("coll {ci}: wrap of leaf {i}"));
							}
						}
						MemberSpec::EmptyOwnedAt(i) => {
							if *i >= spec.leaves.len() {
								return Err(format!("coll {ci}: empty owned collection at leaf {i} out of range"));
							}
						}
						MemberSpec::Coll(j) => {
							if *j >= ci || !Sem::nestable(&spec.colls[*j]) {
								return Err(format!("coll {ci}: member coll {j} not nestable"));
							}
						}
						MemberSpec::Inner(j, k) => {
							if *j >= ci || !Sem::inner_member_accessible(&spec.colls[*j], *k) {
								return Err(format!("coll {ci}: inner {k} of coll {j} not accessible"));
							}
						}
						MemberSpec::Own(d) => {
							if d.wraps > 2 {
								return Err(format!("coll {ci}: too many wrappers"));
							}
						}
					}
				}
			}
			if let Content::ByVal(ms) = &c.content {
				fn chk(m: &OMemberSpec, depth: usize) -> Result<(), String> {
					match m {
						OMemberSpec::Leaf(d) => {
							if d.wraps > 2 {
								return Err("wraps".into());
							}
						}
						OMemberSpec::Coll(oc) => {
							if depth > 3 {
								return Err("too deep".into());
							}
							if oc.kind == KindTag::Ref {
								return Err("ref by value".into());
							}
							if oc.pois && oc.kind != KindTag::Owned {
								return Err("pois on non-owned by-value coll".into());
							}
							for s in &oc.members {
								chk(s, depth + 1)?;
							}
						}
					}
					Ok(())
				}
				for m in ms {
					chk(m, 0).map_err(|e| format!("coll {ci}: {e}"))?;
				}
			}
		}
		Ok(())
	}
}

// ---------------------------------------------------------------------------
// arena

pub struct Arena {
	items: Vec<(*mut u8, unsafe fn(*mut u8))>,
}

unsafe impl Send for Arena {}

unsafe fn drop_box<T>(p: *mut u8) {
	drop(Box::from_raw(p as *mut T));
}

impl Arena {
	pub fn new() -> Arena {
		Arena { items: Vec::new() }
	}
	/// Store a value for the life of the execution and hand out a reference
	/// typed 'static.  Safety contract of the harness: nothing obtained from
	/// the arena is used after the arena is dropped (the runner joins every
	/// thread and drops every guard first, or leaks the arena).
	pub fn put<T: 'static>(&mut self, v: T) -> &'static T {
		let p = Box::into_raw(Box::new(v));
		self.items.push((p as *mut u8, drop_box::<T>));
		unsafe { &*p }
	}
}

impl Default for Arena {
	fn default() -> Self {
		Self::new()
	}
}

impl Drop for Arena {
	fn drop(&mut self) {
		while let Some((p, d)) = self.items.pop() {
			unsafe { d(p) }
		}
	}
}

// ---------------------------------------------------------------------------
// containers

pub trait FromVec<E>: Sized {
	fn from_vec(v: Vec<E>) -> Self;
}
impl<E> FromVec<E> for Vec<E> {
	fn from_vec(v: Vec<E>) -> Self {
		v
	}
}
impl<E> FromVec<E> for Box<[E]> {
	fn from_vec(v: Vec<E>) -> Self {
		v.into_boxed_slice()
	}
}
impl<E, const N: usize> FromVec<E> for [E; N] {
	fn from_vec(v: Vec<E>) -> Self {
		match v.try_into() {
			Ok(a) => a,
			Err(_) => panic!("harness bug: array length"),
		}
	}
}
macro_rules! tuple_from_vec {
	($($e:ident),*) => {
		impl<E> FromVec<E> for ($($e,)*) {
			fn from_vec(v: Vec<E>) -> Self {
				let mut it = v.into_iter();
				let r = ($({ let x: $e = it.next().expect("harness bug: tuple arity"); x },)*);
				assert!(it.next().is_none(), "harness bug: tuple arity");
				r
			}
		}
	};
}
tuple_from_vec!(E);
tuple_from_vec!(E, E);
tuple_from_vec!(E, E, E);
tuple_from_vec!(E, E, E, E);
tuple_from_vec!(E, E, E, E, E);
tuple_from_vec!(E, E, E, E, E, E);
tuple_from_vec!(E, E, E, E, E, E, E);

/// the elements of a container, by reference
pub trait Elems<E> {
	fn elems(&self) -> Vec<&E>;
}
impl<E> Elems<E> for Vec<E> {
	fn elems(&self) -> Vec<&E> {
		self.iter().collect()
	}
}
impl<E> Elems<E> for Box<[E]> {
	fn elems(&self) -> Vec<&E> {
		self.iter().collect()
	}
}
impl<E, const N: usize> Elems<E> for [E; N] {
	fn elems(&self) -> Vec<&E> {
		self.iter().collect()
	}
}
macro_rules! tuple_elems {
	($($e:ident $i:tt),*) => {
		impl<E> Elems<E> for ($($e,)*) {
			fn elems(&self) -> Vec<&E> {
				vec![$(&self.$i),*]
			}
		}
	};
}
tuple_elems!(E 0);
tuple_elems!(E 0, E 1);
tuple_elems!(E 0, E 1, E 2);
tuple_elems!(E 0, E 1, E 2, E 3);
tuple_elems!(E 0, E 1, E 2, E 3, E 4);
tuple_elems!(E 0, E 1, E 2, E 3, E 4, E 5);
tuple_elems!(E 0, E 1, E 2, E 3, E 4, E 5, E 6);

/// the by-value locks among the members of a by-reference container
fn own_members<C: Elems<Mem>>(c: &'static C) -> Vec<Option<&'static OMem>> {
	c.elems().into_iter().map(|m| if let Mem::V(o) = m { Some(o) } else { None }).collect()
}

// ---------------------------------------------------------------------------
// built world

#[derive(Clone, Copy)]
pub enum LeafRef {
	M(St<M>),
	R(St<R>),
	PM(St<PM>),
	PR(St<PR>),
	PPM(St<PPM>),
	PPR(St<PPR>),
}

impl LeafRef {
	/// address of the lock value
	pub fn addr(&self) -> usize {
		match *self {
			LeafRef::M(x) => x as *const _ as usize,
			LeafRef::R(x) => x as *const _ as usize,
			LeafRef::PM(x) => x as *const _ as usize,
			LeafRef::PR(x) => x as *const _ as usize,
			LeafRef::PPM(x) => x as *const _ as usize,
			LeafRef::PPR(x) => x as *const _ as usize,
		}
	}
	pub fn target(&self) -> &'static dyn DynTarget {
		match *self {
			LeafRef::M(x) => x,
			LeafRef::R(x) => x,
			LeafRef::PM(x) => x,
			LeafRef::PR(x) => x,
			LeafRef::PPM(x) => x,
			LeafRef::PPR(x) => x,
		}
	}
	pub fn mem(&self) -> Mem {
		match *self {
			LeafRef::M(x) => Mem::M(x),
			LeafRef::R(x) => Mem::R(x),
			LeafRef::PM(x) => Mem::PM(x),
			LeafRef::PR(x) => Mem::PR(x),
			LeafRef::PPM(x) => Mem::PPM(x),
			LeafRef::PPR(x) => Mem::PPR(x),
		}
	}
	/// poison flag access: layer 0 = outermost wrapper
	pub fn is_poisoned(&self, layer: u8) -> Option<bool> {
		match (*self, layer) {
			(LeafRef::PM(x), 0) => Some(x.is_poisoned()),
			(LeafRef::PR(x), 0) => Some(x.is_poisoned()),
			(LeafRef::PPM(x), 0) => Some(x.is_poisoned()),
			(LeafRef::PPR(x), 0) => Some(x.is_poisoned()),
			_ => None,
		}
	}
	pub fn clear_poison(&self, layer: u8) -> bool {
		match (*self, layer) {
			(LeafRef::PM(x), 0) => x.clear_poison(),
			(LeafRef::PR(x), 0) => x.clear_poison(),
			(LeafRef::PPM(x), 0) => x.clear_poison(),
			(LeafRef::PPR(x), 0) => x.clear_poison(),
			_ => return false,
		}
		true
	}
}

pub enum NestHandle {
	BoxedV(St<Boxed<Vec<Mem>>>),
	RefV(St<RefC<'static, Vec<Mem>>>),
	RetryV(St<Retry<Vec<Mem>>>),
	OwnedO(St<Owned<Vec<OMem>>>),
	BoxedO(St<Boxed<Vec<OMem>>>),
	RetryO(St<Retry<Vec<OMem>>>),
	RefO(St<RefC<'static, Vec<OMem>>>),
	PBoxedV(St<Poisonable<Boxed<Vec<Mem>>>>),
	PRetryV(St<Poisonable<Retry<Vec<Mem>>>>),
	POwnedO(St<Poisonable<Owned<Vec<OMem>>>>),
}

impl NestHandle {
	pub fn mem(&self) -> Mem {
		match self {
			NestHandle::BoxedV(x) => Mem::BoxedV(x),
			NestHandle::RefV(x) => Mem::RefV(x),
			NestHandle::RetryV(x) => Mem::RetryV(x),
			NestHandle::OwnedO(x) => Mem::OwnedO(x),
			NestHandle::BoxedO(x) => Mem::BoxedO(x),
			NestHandle::RetryO(x) => Mem::RetryO(x),
			NestHandle::RefO(x) => Mem::RefO(x),
			NestHandle::PBoxedV(x) => Mem::PBoxedV(x),
			NestHandle::PRetryV(x) => Mem::PRetryV(x),
			NestHandle::POwnedO(x) => Mem::POwnedO(x),
		}
	}
	/// by-value members reachable through child()
	pub fn inner(&self) -> Option<&'static [OMem]> {
		match self {
			NestHandle::BoxedO(x) => Some(x.child().as_slice()),
			NestHandle::RetryO(x) => Some(x.child().as_slice()),
			NestHandle::RefO(x) => Some(x.child().as_slice()),
			_ => None,
		}
	}
}

#[derive(Clone, Copy, PartialEq, Eq, Debug)]
pub enum BuildStatus {
	Built,
	/// the checked constructor returned None
	Rejected,
	/// a member refers to a collection that does not exist (rejected or skipped itself)
	Skipped,
}

pub struct BuiltColl {
	/// None = rejected or skipped
	pub target: Option<&'static dyn DynTarget>,
	pub nest: Option<NestHandle>,
	pub status: BuildStatus,
	/// per member: the lock stored by value there (`MemberSpec::Own`), reached
	/// through child()
	pub own: Vec<Option<&'static OMem>>,
}

pub struct World {
	pub leaves: Vec<LeafRef>,
	pub colls: Vec<BuiltColl>,
	/// address of every stand-alone leaf and by-value unit (for the replay layout check)
	pub arena: Arena,
}

unsafe impl Send for World {}
unsafe impl Sync for World {}

impl World {
	pub fn target(&self, t: TargetRef) -> Option<&'static dyn DynTarget> {
		match t {
			TargetRef::Leaf(i) => Some(self.leaves[i].target()),
			TargetRef::Coll(c) => self.colls[c].target,
		}
	}
}

/// stand-alone leaves live in one slice, so their address order is their index order
#[allow(clippy::large_enum_variant)]
enum Slot {
	M(M),
	R(R),
	PM(PM),
	PR(PR),
	PPM(PPM),
	PPR(PPR),
}

pub fn new_m(id: Lid, key: &mut ThreadKey) -> M {
	let m = M::new(P { id, ver: 0 });
	register_with(id, || {
		let r = m.scoped_try_lock(&mut *key, |_| ());
		assert!(r.is_ok());
	});
	m
}

pub fn new_r(id: Lid, key: &mut ThreadKey) -> R {
	let r = R::new(P { id, ver: 0 });
	register_with(id, || {
		let x = r.scoped_try_write(&mut *key, |_| ());
		assert!(x.is_ok());
	});
	r
}

fn new_slot(d: &LeafDecl, id: Lid, key: &mut ThreadKey) -> Slot {
	match (d.ty, d.wraps) {
		(LeafTy::M, 0) => Slot::M(new_m(id, key)),
		(LeafTy::M, 1) => Slot::PM(Poisonable::new(new_m(id, key))),
		(LeafTy::M, _) => Slot::PPM(Poisonable::new(Poisonable::new(new_m(id, key)))),
		(LeafTy::R, 0) => Slot::R(new_r(id, key)),
		(LeafTy::R, 1) => Slot::PR(Poisonable::new(new_r(id, key))),
		(LeafTy::R, _) => Slot::PPR(Poisonable::new(Poisonable::new(new_r(id, key)))),
	}
}

fn new_omem_leaf(d: &LeafDecl, id: Lid, key: &mut ThreadKey) -> OMem {
	match new_slot(d, id, key) {
		Slot::M(x) => OMem::M(x),
		Slot::R(x) => OMem::R(x),
		Slot::PM(x) => OMem::PM(x),
		Slot::PR(x) => OMem::PR(x),
		Slot::PPM(x) => OMem::PPM(x),
		Slot::PPR(x) => OMem::PPR(x),
	}
}

fn build_omember(m: &OMemberSpec, next: &mut Lid, key: &mut ThreadKey) -> OMem {
	match m {
		OMemberSpec::Leaf(d) => {
			let id = *next;
			*next += 1;
			new_omem_leaf(d, id, key)
		}
		OMemberSpec::Coll(oc) => {
			let v: Vec<OMem> = oc.members.iter().map(|s| build_omember(s, next, key)).collect();
			match (oc.kind, oc.pois) {
				(KindTag::Owned, false) => OMem::Owned(Owned::new(v)),
				(KindTag::Owned, true) => OMem::POwned(Poisonable::new(Owned::new(v))),
				(KindTag::Boxed, _) => OMem::Boxed(Boxed::new(v)),
				(KindTag::Retry, _) => OMem::Retry(Retry::new(v)),
				(KindTag::Ref, _) => unreachable!(),
			}
		}
	}
}

macro_rules! dispatch_cont {
	($cont:expr, $n:expr, $E:ty, $f:ident, $($args:expr),*) => {
		match ($cont, $n) {
			(Cont::Vec, _) => $f::<Vec<$E>>($($args),*),
			(Cont::BoxSlice, _) => $f::<Box<[$E]>>($($args),*),
			(Cont::Array, 0) => $f::<[$E; 0]>($($args),*),
			(Cont::Array, 1) => $f::<[$E; 1]>($($args),*),
			(Cont::Array, 2) => $f::<[$E; 2]>($($args),*),
			(Cont::Array, 3) => $f::<[$E; 3]>($($args),*),
			(Cont::Array, 4) => $f::<[$E; 4]>($($args),*),
			(Cont::Tuple, 1) => $f::<($E,)>($($args),*),
			(Cont::Tuple, 2) => $f::<($E, $E)>($($args),*),
			(Cont::Tuple, 3) => $f::<($E, $E, $E)>($($args),*),
			(Cont::Tuple, 4) => $f::<($E, $E, $E, $E)>($($args),*),
			(Cont::Tuple, 5) => $f::<($E, $E, $E, $E, $E)>($($args),*),
			(Cont::Tuple, 6) => $f::<($E, $E, $E, $E, $E, $E)>($($args),*),
			(Cont::Tuple, 7) => $f::<($E, $E, $E, $E, $E, $E, $E)>($($args),*),
			_ => panic!("harness bug: unsupported container size"),
		}
	};
}

fn put_t<T: DynTarget + 'static>(arena: &mut Arena, v: T) -> &'static dyn DynTarget {
	arena.put(v)
}

fn build_byref_generic<C>(kind: KindTag, ctor: Ctor, v: Vec<Mem>, arena: &mut Arena, own: &mut Vec<Option<&'static OMem>>) -> Option<&'static dyn DynTarget>
where
	C: FromVec<Mem> + Elems<Mem> + Lockable + Sharable + Sync + Send + Debug + 'static,
	<C as Lockable>::Guard<'static>: Leaves + Debug,
	<C as Sharable>::ReadGuard<'static>: Leaves + Debug,
	<C as Lockable>::DataMut<'static>: Leaves,
	<C as Sharable>::DataRef<'static>: Leaves,
{
	let c = C::from_vec(v);
	if ctor == Ctor::TryNewRef {
		let c: &'static C = arena.put(c);
		*own = own_members(c);
		let t = match kind {
			KindTag::Boxed => Boxed::try_new(c).map(|b| put_t(arena, b)),
			KindTag::Retry => Retry::try_new(c).map(|b| put_t(arena, b)),
			_ => unreachable!("validated"),
		};
		if t.is_none() {
			own.clear();
		}
		return t;
	}
	match kind {
		KindTag::Boxed => Boxed::try_new(c).map(|b| {
			let r: &'static Boxed<C> = arena.put(b);
			*own = own_members(r.child());
			r as &'static dyn DynTarget
		}),
		KindTag::Retry => Retry::try_new(c).map(|b| {
			let r: &'static Retry<C> = arena.put(b);
			*own = own_members(r.child());
			r as &'static dyn DynTarget
		}),
		KindTag::Ref => {
			let c: &'static C = arena.put(c);
			*own = own_members(c);
			let t = RefC::try_new(c).map(|b| put_t(arena, b));
			if t.is_none() {
				own.clear();
			}
			t
		}
		KindTag::Owned => unreachable!(),
	}
}

fn build_byval_generic<C>(kind: KindTag, ctor: Ctor, v: Vec<OMem>, arena: &mut Arena) -> Option<&'static dyn DynTarget>
where
	C: FromVec<OMem> + Lockable + Sharable + happylock::lockable::OwnedLockable + Sync + Send + Debug + 'static,
	<C as Lockable>::Guard<'static>: Leaves + Debug,
	<C as Sharable>::ReadGuard<'static>: Leaves + Debug,
	<C as Lockable>::DataMut<'static>: Leaves,
	<C as Sharable>::DataRef<'static>: Leaves,
{
	let c = C::from_vec(v);
	match (kind, ctor) {
		(KindTag::Owned, _) => Some(put_t(arena, Owned::new(c))),
		(KindTag::Boxed, Ctor::New) => Some(put_t(arena, Boxed::new(c))),
		(KindTag::Boxed, Ctor::TryNew) => Boxed::try_new(c).map(|b| put_t(arena, b)),
		(KindTag::Boxed, Ctor::NewRef) => {
			let c: &'static C = arena.put(c);
			Some(put_t(arena, Boxed::new_ref(c)))
		}
		(KindTag::Retry, Ctor::New) => Some(put_t(arena, Retry::new(c))),
		(KindTag::Retry, Ctor::TryNew) => Retry::try_new(c).map(|b| put_t(arena, b)),
		(KindTag::Retry, Ctor::NewRef) => {
			let c: &'static C = arena.put(c);
			Some(put_t(arena, Retry::new_ref(c)))
		}
		(KindTag::Ref, Ctor::TryNew) => {
			let c: &'static C = arena.put(c);
			RefC::try_new(c).map(|b| put_t(arena, b))
		}
		(KindTag::Ref, _) => {
			let c: &'static C = arena.put(c);
			Some(put_t(arena, RefC::new(c)))
		}
		(_, Ctor::TryNewRef) => unreachable!("validated: by-reference content only"),
	}
}

/// Build one by-reference member list into a `Vec<Mem>`.
fn build_members(ms: &[MemberSpec], leaves: &[LeafRef], colls: &[BuiltColl], next: &mut Lid, mut key: Option<&mut ThreadKey>) -> Option<Vec<Mem>> {
	// the reference semantics numbers the by-value locks of every collection,
	// built or not: keep in step with it on every way out
	let start = *next;
	let n_own = ms.iter().filter(|m| matches!(m, MemberSpec::Own(_))).count() as Lid;
	*next = start + n_own;
	let mut own_next = start;
	let mut v = Vec::with_capacity(ms.len());
	for m in ms {
		v.push(match m {
			MemberSpec::Leaf(i) => leaves[*i].mem(),
			MemberSpec::Wrap(i) => match leaves[*i] {
				LeafRef::M(x) => Mem::WM(Poisonable::new(x)),
				LeafRef::R(x) => Mem::WR(Poisonable::new(x)),
				_ => unreachable!("validated"),
			},
			MemberSpec::EmptyOwnedAt(i) => {
				let addr = leaves[*i].addr();
				if addr % std::mem::align_of::<Owned<[OMem; 0]>>() != 0 {
					return None;
				}
				// a reference to a zero-sized value is valid at any aligned non-null
				// address; safe code gets the same coincidence from a zero-sized
				// tuple field next to a lock
				Mem::OwnedZ(unsafe { &*(addr as *const Owned<[OMem; 0]>) })
			}
			MemberSpec::Coll(j) => colls[*j].nest.as_ref()?.mem(),
			MemberSpec::Inner(j, k) => match colls[*j].own.get(*k).copied().flatten() {
				Some(o) => Mem::O(o),
				None => Mem::O(colls[*j].nest.as_ref()?.inner()?.get(*k)?),
			},
			MemberSpec::Own(d) => {
				let k = key.as_deref_mut()?;
				let id = own_next;
				own_next += 1;
				Mem::V(new_omem_leaf(d, id, k))
			}
		});
	}
	Some(v)
}

impl World {
	/// Build the world.  Must run on a thread whose ThreadKey is available
	/// (registration uses one solo scoped_try_* per fresh lock).
	pub fn build(spec: &WorldSpec) -> World {
		match ThreadKey::get() {
			Some(key) => Self::build_with(spec, key),
			None => {
				// this thread's key is gone (a case leaked it, or the tree under
				// test lost it): build on a fresh thread, which has a fresh key
				// the world outlives the helper thread: it is placed in the
				// region of THIS thread
				let spec = spec.clone();
				let base = crate::quarantine::my_region();
				std::thread::spawn(move || {
					let key = ThreadKey::get().expect("harness bug: a fresh thread has no key");
					crate::quarantine::with_bump_at(base, &spec.layout, || Self::build_in_place(&spec, key))
				})
				.join()
				.expect("harness bug: world builder thread panicked")
			}
		}
	}

	fn build_with(spec: &WorldSpec, key: ThreadKey) -> World {
		crate::quarantine::with_bump(&spec.layout, || Self::build_in_place(spec, key))
	}

	fn build_in_place(spec: &WorldSpec, key: ThreadKey) -> World {
		let mut key = key;
		let mut arena = Arena::new();
		let slots: Vec<Slot> =
			spec.leaves.iter().enumerate().map(|(i, d)| new_slot(d, i as Lid, &mut key)).collect();
		let slots: &'static Vec<Slot> = arena.put(slots);
		let leaves: Vec<LeafRef> = slots
			.iter()
			.map(|s| match s {
				Slot::M(x) => LeafRef::M(x),
				Slot::R(x) => LeafRef::R(x),
				Slot::PM(x) => LeafRef::PM(x),
				Slot::PR(x) => LeafRef::PR(x),
				Slot::PPM(x) => LeafRef::PPM(x),
				Slot::PPR(x) => LeafRef::PPR(x),
			})
			.collect();
		let mut next: Lid = spec.leaves.len() as Lid;
		let mut colls: Vec<BuiltColl> = Vec::new();
		for c in &spec.colls {
			let built = match &c.content {
				Content::ByRef(ms) => match build_members(ms, &leaves, &colls, &mut next, Some(&mut key)) {
					None => BuiltColl { target: None, nest: None, status: BuildStatus::Skipped, own: Vec::new() },
					Some(v) => {
						let n = v.len();
						if c.cont == Cont::Vec && c.ctor != Ctor::TryNewRef {
							// concrete nestable types
							match (c.kind, c.pois) {
								(KindTag::Boxed, false) => match Boxed::try_new(v) {
									Some(b) => {
										let r = arena.put(b);
										BuiltColl { target: Some(r), nest: Some(NestHandle::BoxedV(r)), status: BuildStatus::Built, own: own_members(r.child()) }
									}
									None => BuiltColl { target: None, nest: None, status: BuildStatus::Rejected, own: Vec::new() },
								},
								(KindTag::Boxed, true) => match Boxed::try_new(v) {
									Some(b) => {
										let r = arena.put(Poisonable::new(b));
										BuiltColl { target: Some(r), nest: Some(NestHandle::PBoxedV(r)), status: BuildStatus::Built, own: Vec::new() }
									}
									None => BuiltColl { target: None, nest: None, status: BuildStatus::Rejected, own: Vec::new() },
								},
								(KindTag::Retry, false) => match Retry::try_new(v) {
									Some(b) => {
										let r = arena.put(b);
										BuiltColl { target: Some(r), nest: Some(NestHandle::RetryV(r)), status: BuildStatus::Built, own: own_members(r.child()) }
									}
									None => BuiltColl { target: None, nest: None, status: BuildStatus::Rejected, own: Vec::new() },
								},
								(KindTag::Retry, true) => match Retry::try_new(v) {
									Some(b) => {
										let r = arena.put(Poisonable::new(b));
										BuiltColl { target: Some(r), nest: Some(NestHandle::PRetryV(r)), status: BuildStatus::Built, own: Vec::new() }
									}
									None => BuiltColl { target: None, nest: None, status: BuildStatus::Rejected, own: Vec::new() },
								},
								(KindTag::Ref, false) => {
									let cv: &'static Vec<Mem> = arena.put(v);
									match RefC::try_new(cv) {
										Some(b) => {
											let r = arena.put(b);
											BuiltColl { target: Some(r), nest: Some(NestHandle::RefV(r)), status: BuildStatus::Built, own: own_members(cv) }
										}
										None => BuiltColl { target: None, nest: None, status: BuildStatus::Rejected, own: Vec::new() },
									}
								}
								(KindTag::Ref, true) => {
									let cv: &'static Vec<Mem> = arena.put(v);
									match RefC::try_new(cv) {
										Some(b) => {
											let r = arena.put(Poisonable::new(b));
											BuiltColl { target: Some(r), nest: None, status: BuildStatus::Built, own: Vec::new() }
										}
										None => BuiltColl { target: None, nest: None, status: BuildStatus::Rejected, own: Vec::new() },
									}
								}
								(KindTag::Owned, _) => unreachable!("validated"),
							}
						} else {
							let mut own = Vec::new();
							let t = dispatch_cont!(c.cont, n, Mem, build_byref_generic, c.kind, c.ctor, v, &mut arena, &mut own);
							BuiltColl { target: t, nest: None, status: if t.is_some() { BuildStatus::Built } else { BuildStatus::Rejected }, own }
						}
					}
				},
				Content::ByVal(ms) => {
					let v: Vec<OMem> = ms.iter().map(|m| build_omember(m, &mut next, &mut key)).collect();
					let n = v.len();
					if c.cont == Cont::Vec {
						match (c.kind, c.ctor, c.pois) {
							(KindTag::Owned, _, false) => {
								let r = arena.put(Owned::new(v));
								BuiltColl { target: Some(r), nest: Some(NestHandle::OwnedO(r)), status: BuildStatus::Built, own: Vec::new() }
							}
							(KindTag::Owned, _, true) => {
								let r = arena.put(Poisonable::new(Owned::new(v)));
								BuiltColl { target: Some(r), nest: Some(NestHandle::POwnedO(r)), status: BuildStatus::Built, own: Vec::new() }
							}
							(KindTag::Boxed, Ctor::New, _) => {
								let r = arena.put(Boxed::new(v));
								BuiltColl { target: Some(r), nest: Some(NestHandle::BoxedO(r)), status: BuildStatus::Built, own: Vec::new() }
							}
							(KindTag::Boxed, Ctor::TryNew, _) => match Boxed::try_new(v) {
								Some(b) => {
									let r = arena.put(b);
									BuiltColl { target: Some(r), nest: Some(NestHandle::BoxedO(r)), status: BuildStatus::Built, own: Vec::new() }
								}
								None => BuiltColl { target: None, nest: None, status: BuildStatus::Rejected, own: Vec::new() },
							},
							(KindTag::Retry, Ctor::New, _) => {
								let r = arena.put(Retry::new(v));
								BuiltColl { target: Some(r), nest: Some(NestHandle::RetryO(r)), status: BuildStatus::Built, own: Vec::new() }
							}
							(KindTag::Retry, Ctor::TryNew, _) => match Retry::try_new(v) {
								Some(b) => {
									let r = arena.put(b);
									BuiltColl { target: Some(r), nest: Some(NestHandle::RetryO(r)), status: BuildStatus::Built, own: Vec::new() }
								}
								None => BuiltColl { target: None, nest: None, status: BuildStatus::Rejected, own: Vec::new() },
							},
							(KindTag::Ref, Ctor::TryNew, _) => {
								let cv: &'static Vec<OMem> = arena.put(v);
								match RefC::try_new(cv) {
									Some(b) => {
										let r = arena.put(b);
										BuiltColl { target: Some(r), nest: Some(NestHandle::RefO(r)), status: BuildStatus::Built, own: Vec::new() }
									}
									None => BuiltColl { target: None, nest: None, status: BuildStatus::Rejected, own: Vec::new() },
								}
							}
							(KindTag::Ref, _, _) => {
								let cv: &'static Vec<OMem> = arena.put(v);
								let r = arena.put(RefC::new(cv));
								BuiltColl { target: Some(r), nest: Some(NestHandle::RefO(r)), status: BuildStatus::Built, own: Vec::new() }
							}
							(KindTag::Boxed, Ctor::NewRef, _) => {
								let cv: &'static Vec<OMem> = arena.put(v);
								let r = arena.put(Boxed::new_ref(cv));
								BuiltColl { target: Some(r), nest: None, status: BuildStatus::Built, own: Vec::new() }
							}
							(KindTag::Retry, Ctor::NewRef, _) => {
								let cv: &'static Vec<OMem> = arena.put(v);
								let r = arena.put(Retry::new_ref(cv));
								BuiltColl { target: Some(r), nest: None, status: BuildStatus::Built, own: Vec::new() }
							}
							(_, Ctor::TryNewRef, _) => unreachable!("validated: by-reference content only"),
						}
					} else {
						let t = dispatch_cont!(c.cont, n, OMem, build_byval_generic, c.kind, c.ctor, v, &mut arena);
						BuiltColl { target: t, nest: None, status: if t.is_some() { BuildStatus::Built } else { BuildStatus::Rejected }, own: Vec::new() }
					}
				}
			};
			colls.push(built);
		}
		drop(key);
		World { leaves, colls, arena }
	}
}

pub fn build_members_pub(ms: &[MemberSpec], world: &World) -> Option<Vec<Mem>> {
	let mut next: Lid = 0;
	build_members(ms, &world.leaves, &world.colls, &mut next, None)
}
