//! Concrete happylock types used by the harness: leaf locks over the
//! verification raw locks, and two *member enums* that let one monomorphic
//! container type (`Vec<Mem>`, `[Mem; 3]`, `(Mem, Mem)`, ...) hold any mix of
//! leaves, wrappers and nested collections chosen at run time.
//!
//! `Mem` / `OMem` implement happylock's public `Lockable` / `Sharable` /
//! `OwnedLockable` traits by pure delegation to the happylock impl of the
//! wrapped value, so everything interesting (leaf enumeration, guards, data
//! references of nested collections and containers) is still happylock's code.

use happylock::collection::{
	BoxedLockCollection as Boxed, OwnedLockCollection as Owned, RefLockCollection as RefC,
	RetryingLockCollection as Retry,
};
use happylock::lockable::{Lockable, OwnedLockable, RawLock, Sharable};
use happylock::mutex::{Mutex, MutexRef};
use happylock::poisonable::{PoisonError, PoisonRef, Poisonable};
use happylock::rwlock::{RwLock, RwLockReadRef, RwLockWriteRef};

use crate::vlock::{VMutex, VRw};

/// payload of every leaf lock
#[derive(Clone, PartialEq, Eq)]
pub struct P {
	pub id: u32,
	pub ver: u32,
}

thread_local! {
	/// how `{:?}` of a payload behaves on this thread: 0 prints, 1 returns Err, 2 panics
	pub static P_DEBUG_MODE: std::cell::Cell<u8> = const { std::cell::Cell::new(0) };
}

impl std::fmt::Debug for P {
	fn fmt(&self, f: &mut std::fmt::Formatter<'_>) -> std::fmt::Result {
		match P_DEBUG_MODE.with(|m| m.get()) {
			1 => Err(std::fmt::Error),
			2 => std::panic::panic_any(crate::exec::UserPanic),
			_ => write!(f, "P {{ id: {}, ver: {} }}", self.id, self.ver),
		}
	}
}

pub type M = Mutex<P, VMutex>;
pub type R = RwLock<P, VRw>;
pub type PM = Poisonable<M>;
pub type PR = Poisonable<R>;
pub type PPR = Poisonable<PR>;
pub type PPM = Poisonable<PM>;

pub type St<T> = &'static T;

/// member by reference (or an inline wrapper around a reference)
pub enum Mem {
	M(St<M>),
	R(St<R>),
	PM(St<PM>),
	PR(St<PR>),
	PPM(St<PPM>),
	PPR(St<PPR>),
	/// inline Poisonable around a *reference* to a shared leaf
	WM(Poisonable<St<M>>),
	WR(Poisonable<St<R>>),
	/// a by-value member of some other collection, reached through child()/iter()
	O(St<OMem>),
	/// a lock stored by value among the references (mixed ownership)
	V(OMem),
	BoxedV(St<Boxed<Vec<Mem>>>),
	RefV(St<RefC<'static, Vec<Mem>>>),
	RetryV(St<Retry<Vec<Mem>>>),
	OwnedO(St<Owned<Vec<OMem>>>),
	/// a zero-sized owned collection (no locks at all); the reference may point at
	/// the address of some other lock (a zero-sized value does not own its address)
	OwnedZ(St<Owned<[OMem; 0]>>),
	BoxedO(St<Boxed<Vec<OMem>>>),
	RetryO(St<Retry<Vec<OMem>>>),
	RefO(St<RefC<'static, Vec<OMem>>>),
	PBoxedV(St<Poisonable<Boxed<Vec<Mem>>>>),
	PRetryV(St<Poisonable<Retry<Vec<Mem>>>>),
	POwnedO(St<Poisonable<Owned<Vec<OMem>>>>),
}

/// member by value
pub enum OMem {
	M(M),
	R(R),
	PM(PM),
	PR(PR),
	PPM(PPM),
	PPR(PPR),
	Owned(Owned<Vec<OMem>>),
	Boxed(Boxed<Vec<OMem>>),
	Retry(Retry<Vec<OMem>>),
	POwned(Poisonable<Owned<Vec<OMem>>>),
}

type PRes<T> = Result<T, PoisonError<T>>;

pub enum MemG {
	M(MutexRef<'static, P, VMutex>),
	R(RwLockWriteRef<'static, P, VRw>),
	PM(PRes<PoisonRef<'static, MutexRef<'static, P, VMutex>>>),
	PR(PRes<PoisonRef<'static, RwLockWriteRef<'static, P, VRw>>>),
	PPM(PRes<PoisonRef<'static, PRes<PoisonRef<'static, MutexRef<'static, P, VMutex>>>>>),
	PPR(PRes<PoisonRef<'static, PRes<PoisonRef<'static, RwLockWriteRef<'static, P, VRw>>>>>),
	O(OMemG),
	V(Box<[MemG]>),
	VO(Box<[OMemG]>),
	PV(PRes<PoisonRef<'static, Box<[MemG]>>>),
	PVO(PRes<PoisonRef<'static, Box<[OMemG]>>>),
}

pub enum OMemG {
	M(MutexRef<'static, P, VMutex>),
	R(RwLockWriteRef<'static, P, VRw>),
	PM(PRes<PoisonRef<'static, MutexRef<'static, P, VMutex>>>),
	PR(PRes<PoisonRef<'static, RwLockWriteRef<'static, P, VRw>>>),
	PPM(PRes<PoisonRef<'static, PRes<PoisonRef<'static, MutexRef<'static, P, VMutex>>>>>),
	PPR(PRes<PoisonRef<'static, PRes<PoisonRef<'static, RwLockWriteRef<'static, P, VRw>>>>>),
	VO(Box<[OMemG]>),
	PVO(PRes<PoisonRef<'static, Box<[OMemG]>>>),
}

pub enum MemRG {
	R(RwLockReadRef<'static, P, VRw>),
	PR(PRes<PoisonRef<'static, RwLockReadRef<'static, P, VRw>>>),
	PPR(PRes<PoisonRef<'static, PRes<PoisonRef<'static, RwLockReadRef<'static, P, VRw>>>>>),
	O(OMemRG),
	V(Box<[MemRG]>),
	VO(Box<[OMemRG]>),
	PV(PRes<PoisonRef<'static, Box<[MemRG]>>>),
	PVO(PRes<PoisonRef<'static, Box<[OMemRG]>>>),
}

pub enum OMemRG {
	R(RwLockReadRef<'static, P, VRw>),
	PR(PRes<PoisonRef<'static, RwLockReadRef<'static, P, VRw>>>),
	PPR(PRes<PoisonRef<'static, PRes<PoisonRef<'static, RwLockReadRef<'static, P, VRw>>>>>),
	VO(Box<[OMemRG]>),
	PVO(PRes<PoisonRef<'static, Box<[OMemRG]>>>),
}

pub enum MemD {
	L(&'static mut P),
	PL(PRes<&'static mut P>),
	PPL(PRes<PRes<&'static mut P>>),
	O(OMemD),
	V(Box<[MemD]>),
	VO(Box<[OMemD]>),
	PV(PRes<Box<[MemD]>>),
	PVO(PRes<Box<[OMemD]>>),
}

pub enum OMemD {
	L(&'static mut P),
	PL(PRes<&'static mut P>),
	PPL(PRes<PRes<&'static mut P>>),
	VO(Box<[OMemD]>),
	PVO(PRes<Box<[OMemD]>>),
}

pub enum MemDR {
	L(&'static P),
	PL(PRes<&'static P>),
	PPL(PRes<PRes<&'static P>>),
	O(OMemDR),
	V(Box<[MemDR]>),
	VO(Box<[OMemDR]>),
	PV(PRes<Box<[MemDR]>>),
	PVO(PRes<Box<[OMemDR]>>),
}

pub enum OMemDR {
	L(&'static P),
	PL(PRes<&'static P>),
	PPL(PRes<PRes<&'static P>>),
	VO(Box<[OMemDR]>),
	PVO(PRes<Box<[OMemDR]>>),
}

// The harness only ever stores these values in its per-execution arena and
// hands out `&'static` references, so `Self: 'g` with 'g = 'static is the only
// instantiation used.  The trait requires the GATs for every 'g; we provide
// them for every 'g by shortening nothing: the guard types are 'static types,
// which are valid for any shorter 'g.

unsafe impl Lockable for Mem {
	type Guard<'g>
		= MemG
	where
		Self: 'g;
	type DataMut<'a>
		= MemD
	where
		Self: 'a;

	fn get_ptrs<'a>(&'a self, ptrs: &mut Vec<&'a dyn RawLock>) {
		match self {
			Mem::M(x) => x.get_ptrs(ptrs),
			Mem::R(x) => x.get_ptrs(ptrs),
			Mem::PM(x) => x.get_ptrs(ptrs),
			Mem::PR(x) => x.get_ptrs(ptrs),
			Mem::PPM(x) => x.get_ptrs(ptrs),
			Mem::PPR(x) => x.get_ptrs(ptrs),
			Mem::WM(x) => x.get_ptrs(ptrs),
			Mem::WR(x) => x.get_ptrs(ptrs),
			Mem::O(x) => x.get_ptrs(ptrs),
			Mem::V(x) => x.get_ptrs(ptrs),
			Mem::BoxedV(x) => x.get_ptrs(ptrs),
			Mem::RefV(x) => x.get_ptrs(ptrs),
			Mem::RetryV(x) => x.get_ptrs(ptrs),
			Mem::OwnedO(x) => x.get_ptrs(ptrs),
			Mem::OwnedZ(x) => x.get_ptrs(ptrs),
			Mem::BoxedO(x) => x.get_ptrs(ptrs),
			Mem::RetryO(x) => x.get_ptrs(ptrs),
			Mem::RefO(x) => x.get_ptrs(ptrs),
			Mem::PBoxedV(x) => x.get_ptrs(ptrs),
			Mem::PRetryV(x) => x.get_ptrs(ptrs),
			Mem::POwnedO(x) => x.get_ptrs(ptrs),
		}
	}

	unsafe fn guard(&self) -> MemG {
		// the references inside `self` are 'static, so the guards are too
		match self {
			Mem::M(x) => MemG::M(Lockable::guard(*x)),
			Mem::R(x) => MemG::R(Lockable::guard(*x)),
			Mem::PM(x) => MemG::PM(Lockable::guard(*x)),
			Mem::PR(x) => MemG::PR(Lockable::guard(*x)),
			Mem::PPM(x) => MemG::PPM(Lockable::guard(*x)),
			Mem::PPR(x) => MemG::PPR(Lockable::guard(*x)),
			Mem::WM(x) => MemG::PM(extend_g(Lockable::guard(x))),
			Mem::WR(x) => MemG::PR(extend_g(Lockable::guard(x))),
			Mem::O(x) => MemG::O(Lockable::guard(*x)),
			Mem::V(x) => MemG::O(extend_g(Lockable::guard(x))),
			Mem::BoxedV(x) => MemG::V(Lockable::guard(*x)),
			Mem::RefV(x) => MemG::V(Lockable::guard(*x)),
			Mem::RetryV(x) => MemG::V(Lockable::guard(*x)),
			Mem::OwnedO(x) => MemG::VO(Lockable::guard(*x)),
			Mem::OwnedZ(x) => {
				let _g: [OMemG; 0] = Lockable::guard(*x);
				MemG::VO(Box::new([]))
			}
			Mem::BoxedO(x) => MemG::VO(Lockable::guard(*x)),
			Mem::RetryO(x) => MemG::VO(Lockable::guard(*x)),
			Mem::RefO(x) => MemG::VO(Lockable::guard(*x)),
			Mem::PBoxedV(x) => MemG::PV(Lockable::guard(*x)),
			Mem::PRetryV(x) => MemG::PV(Lockable::guard(*x)),
			Mem::POwnedO(x) => MemG::PVO(Lockable::guard(*x)),
		}
	}

	unsafe fn data_mut(&self) -> MemD {
		match self {
			Mem::M(x) => MemD::L(Lockable::data_mut(*x)),
			Mem::R(x) => MemD::L(Lockable::data_mut(*x)),
			Mem::PM(x) => MemD::PL(Lockable::data_mut(*x)),
			Mem::PR(x) => MemD::PL(Lockable::data_mut(*x)),
			Mem::PPM(x) => MemD::PPL(Lockable::data_mut(*x)),
			Mem::PPR(x) => MemD::PPL(Lockable::data_mut(*x)),
			Mem::WM(x) => MemD::PL(extend_g(Lockable::data_mut(x))),
			Mem::WR(x) => MemD::PL(extend_g(Lockable::data_mut(x))),
			Mem::O(x) => MemD::O(Lockable::data_mut(*x)),
			Mem::V(x) => MemD::O(extend_g(Lockable::data_mut(x))),
			Mem::BoxedV(x) => MemD::V(Lockable::data_mut(*x)),
			Mem::RefV(x) => MemD::V(Lockable::data_mut(*x)),
			Mem::RetryV(x) => MemD::V(Lockable::data_mut(*x)),
			Mem::OwnedO(x) => MemD::VO(Lockable::data_mut(*x)),
			Mem::OwnedZ(x) => {
				let _d: [OMemD; 0] = Lockable::data_mut(*x);
				MemD::VO(Box::new([]))
			}
			Mem::BoxedO(x) => MemD::VO(Lockable::data_mut(*x)),
			Mem::RetryO(x) => MemD::VO(Lockable::data_mut(*x)),
			Mem::RefO(x) => MemD::VO(Lockable::data_mut(*x)),
			Mem::PBoxedV(x) => MemD::PV(Lockable::data_mut(*x)),
			Mem::PRetryV(x) => MemD::PV(Lockable::data_mut(*x)),
			Mem::POwnedO(x) => MemD::PVO(Lockable::data_mut(*x)),
		}
	}
}

/// `Poisonable<&'static Leaf>` stored inline in a `Mem` that itself lives in
/// the arena: the guard borrows the wrapper (for its flag) for the lifetime of
/// `&self`; the arena keeps the wrapper alive for the whole execution, so the
/// borrow is extended to 'static like every other arena reference.
unsafe fn extend_g<A, B>(a: A) -> B {
	assert_eq!(std::mem::size_of::<A>(), std::mem::size_of::<B>());
	let b = std::ptr::read(&a as *const A as *const B);
	std::mem::forget(a);
	b
}

unsafe impl Sharable for Mem {
	type ReadGuard<'g>
		= MemRG
	where
		Self: 'g;
	type DataRef<'a>
		= MemDR
	where
		Self: 'a;

	unsafe fn read_guard(&self) -> MemRG {
		match self {
			Mem::M(_) | Mem::PM(_) | Mem::PPM(_) | Mem::WM(_) => {
				unreachable!("harness bug: shared access requested on a spec with a Mutex leaf")
			}
			Mem::R(x) => MemRG::R(Sharable::read_guard(*x)),
			Mem::PR(x) => MemRG::PR(Sharable::read_guard(*x)),
			Mem::PPR(x) => MemRG::PPR(Sharable::read_guard(*x)),
			Mem::WR(x) => MemRG::PR(extend_g(Sharable::read_guard(x))),
			Mem::O(x) => MemRG::O(Sharable::read_guard(*x)),
			Mem::V(x) => MemRG::O(extend_g(Sharable::read_guard(x))),
			Mem::BoxedV(x) => MemRG::V(Sharable::read_guard(*x)),
			Mem::RefV(x) => MemRG::V(Sharable::read_guard(*x)),
			Mem::RetryV(x) => MemRG::V(Sharable::read_guard(*x)),
			Mem::OwnedO(x) => MemRG::VO(Sharable::read_guard(*x)),
			Mem::OwnedZ(x) => {
				let _g: [OMemRG; 0] = Sharable::read_guard(*x);
				MemRG::VO(Box::new([]))
			}
			Mem::BoxedO(x) => MemRG::VO(Sharable::read_guard(*x)),
			Mem::RetryO(x) => MemRG::VO(Sharable::read_guard(*x)),
			Mem::RefO(x) => MemRG::VO(Sharable::read_guard(*x)),
			Mem::PBoxedV(x) => MemRG::PV(Sharable::read_guard(*x)),
			Mem::PRetryV(x) => MemRG::PV(Sharable::read_guard(*x)),
			Mem::POwnedO(x) => MemRG::PVO(Sharable::read_guard(*x)),
		}
	}

	unsafe fn data_ref(&self) -> MemDR {
		match self {
			Mem::M(_) | Mem::PM(_) | Mem::PPM(_) | Mem::WM(_) => {
				unreachable!("harness bug: shared access requested on a spec with a Mutex leaf")
			}
			Mem::R(x) => MemDR::L(Sharable::data_ref(*x)),
			Mem::PR(x) => MemDR::PL(Sharable::data_ref(*x)),
			Mem::PPR(x) => MemDR::PPL(Sharable::data_ref(*x)),
			Mem::WR(x) => MemDR::PL(extend_g(Sharable::data_ref(x))),
			Mem::O(x) => MemDR::O(Sharable::data_ref(*x)),
			Mem::V(x) => MemDR::O(extend_g(Sharable::data_ref(x))),
			Mem::BoxedV(x) => MemDR::V(Sharable::data_ref(*x)),
			Mem::RefV(x) => MemDR::V(Sharable::data_ref(*x)),
			Mem::RetryV(x) => MemDR::V(Sharable::data_ref(*x)),
			Mem::OwnedO(x) => MemDR::VO(Sharable::data_ref(*x)),
			Mem::OwnedZ(x) => {
				let _d: [OMemDR; 0] = Sharable::data_ref(*x);
				MemDR::VO(Box::new([]))
			}
			Mem::BoxedO(x) => MemDR::VO(Sharable::data_ref(*x)),
			Mem::RetryO(x) => MemDR::VO(Sharable::data_ref(*x)),
			Mem::RefO(x) => MemDR::VO(Sharable::data_ref(*x)),
			Mem::PBoxedV(x) => MemDR::PV(Sharable::data_ref(*x)),
			Mem::PRetryV(x) => MemDR::PV(Sharable::data_ref(*x)),
			Mem::POwnedO(x) => MemDR::PVO(Sharable::data_ref(*x)),
		}
	}
}

unsafe impl Lockable for OMem {
	type Guard<'g>
		= OMemG
	where
		Self: 'g;
	type DataMut<'a>
		= OMemD
	where
		Self: 'a;

	fn get_ptrs<'a>(&'a self, ptrs: &mut Vec<&'a dyn RawLock>) {
		match self {
			OMem::M(x) => x.get_ptrs(ptrs),
			OMem::R(x) => x.get_ptrs(ptrs),
			OMem::PM(x) => x.get_ptrs(ptrs),
			OMem::PR(x) => x.get_ptrs(ptrs),
			OMem::PPM(x) => x.get_ptrs(ptrs),
			OMem::PPR(x) => x.get_ptrs(ptrs),
			OMem::Owned(x) => x.get_ptrs(ptrs),
			OMem::Boxed(x) => x.get_ptrs(ptrs),
			OMem::Retry(x) => x.get_ptrs(ptrs),
			OMem::POwned(x) => x.get_ptrs(ptrs),
		}
	}

	unsafe fn guard(&self) -> OMemG {
		// values live in the arena (directly or inside an arena collection) for
		// the whole execution; see `extend_g`
		match self {
			OMem::M(x) => OMemG::M(extend_g(Lockable::guard(x))),
			OMem::R(x) => OMemG::R(extend_g(Lockable::guard(x))),
			OMem::PM(x) => OMemG::PM(extend_g(Lockable::guard(x))),
			OMem::PR(x) => OMemG::PR(extend_g(Lockable::guard(x))),
			OMem::PPM(x) => OMemG::PPM(extend_g(Lockable::guard(x))),
			OMem::PPR(x) => OMemG::PPR(extend_g(Lockable::guard(x))),
			OMem::Owned(x) => OMemG::VO(extend_g(Lockable::guard(x))),
			OMem::Boxed(x) => OMemG::VO(extend_g(Lockable::guard(x))),
			OMem::Retry(x) => OMemG::VO(extend_g(Lockable::guard(x))),
			OMem::POwned(x) => OMemG::PVO(extend_g(Lockable::guard(x))),
		}
	}

	unsafe fn data_mut(&self) -> OMemD {
		match self {
			OMem::M(x) => OMemD::L(extend_g(Lockable::data_mut(x))),
			OMem::R(x) => OMemD::L(extend_g(Lockable::data_mut(x))),
			OMem::PM(x) => OMemD::PL(extend_g(Lockable::data_mut(x))),
			OMem::PR(x) => OMemD::PL(extend_g(Lockable::data_mut(x))),
			OMem::PPM(x) => OMemD::PPL(extend_g(Lockable::data_mut(x))),
			OMem::PPR(x) => OMemD::PPL(extend_g(Lockable::data_mut(x))),
			OMem::Owned(x) => OMemD::VO(extend_g(Lockable::data_mut(x))),
			OMem::Boxed(x) => OMemD::VO(extend_g(Lockable::data_mut(x))),
			OMem::Retry(x) => OMemD::VO(extend_g(Lockable::data_mut(x))),
			OMem::POwned(x) => OMemD::PVO(extend_g(Lockable::data_mut(x))),
		}
	}
}

unsafe impl Sharable for OMem {
	type ReadGuard<'g>
		= OMemRG
	where
		Self: 'g;
	type DataRef<'a>
		= OMemDR
	where
		Self: 'a;

	unsafe fn read_guard(&self) -> OMemRG {
		match self {
			OMem::M(_) | OMem::PM(_) | OMem::PPM(_) => {
				unreachable!("harness bug: shared access requested on a spec with a Mutex leaf")
			}
			OMem::R(x) => OMemRG::R(extend_g(Sharable::read_guard(x))),
			OMem::PR(x) => OMemRG::PR(extend_g(Sharable::read_guard(x))),
			OMem::PPR(x) => OMemRG::PPR(extend_g(Sharable::read_guard(x))),
			OMem::Owned(x) => OMemRG::VO(extend_g(Sharable::read_guard(x))),
			OMem::Boxed(x) => OMemRG::VO(extend_g(Sharable::read_guard(x))),
			OMem::Retry(x) => OMemRG::VO(extend_g(Sharable::read_guard(x))),
			OMem::POwned(x) => OMemRG::PVO(extend_g(Sharable::read_guard(x))),
		}
	}

	unsafe fn data_ref(&self) -> OMemDR {
		match self {
			OMem::M(_) | OMem::PM(_) | OMem::PPM(_) => {
				unreachable!("harness bug: shared access requested on a spec with a Mutex leaf")
			}
			OMem::R(x) => OMemDR::L(extend_g(Sharable::data_ref(x))),
			OMem::PR(x) => OMemDR::PL(extend_g(Sharable::data_ref(x))),
			OMem::PPR(x) => OMemDR::PPL(extend_g(Sharable::data_ref(x))),
			OMem::Owned(x) => OMemDR::VO(extend_g(Sharable::data_ref(x))),
			OMem::Boxed(x) => OMemDR::VO(extend_g(Sharable::data_ref(x))),
			OMem::Retry(x) => OMemDR::VO(extend_g(Sharable::data_ref(x))),
			OMem::POwned(x) => OMemDR::PVO(extend_g(Sharable::data_ref(x))),
		}
	}
}

// every variant owns its locks
unsafe impl OwnedLockable for OMem {}
