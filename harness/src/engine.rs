//! Case drivers: SEQ (steps executed one at a time on the OS thread of their
//! logical thread) and CONC (each logical thread runs its own program; the
//! scheduler inside `Exec` decides who runs at every raw lock operation).

use std::collections::BTreeMap;
use std::sync::mpsc;
use std::sync::{Arc, Mutex};
use std::time::Duration;

use happylock::ThreadKey;
use serde::Serialize;

use crate::case::*;
use crate::exec::*;
use crate::interp::*;
use crate::world::*;

#[derive(Clone, Debug, Default, Serialize)]
pub struct RunResult {
	pub invalid: Option<String>,
	pub findings: Vec<Finding>,
	pub labels: BTreeMap<String, u64>,
	pub log: Vec<String>,
	pub trace: Vec<String>,
	pub notices: Vec<Notice>,
	pub aborted: bool,
	/// the run hit a cap or a watchdog: no verdict
	pub inconclusive: Option<String>,
	pub executed_steps: u64,
	pub skipped_steps: u64,
	pub raw_ops: usize,
	#[serde(skip)]
	pub events: Vec<Event>,
	#[serde(skip)]
	pub frames: Vec<Frame>,
	pub acq_orders: Vec<(TargetRef, bool, Vec<Lid>)>,
	pub sched_points: usize,
	pub branch_points: usize,
	pub switches: usize,
	pub taken: Vec<(u8, u8)>,
	pub waited: bool,
	pub fault_fired: Vec<(u32, Lid, Op, Tid)>,
	/// which collections of the world the checked constructor rejected
	pub rejected: Vec<usize>,
	pub skipped_colls: Vec<usize>,
	pub group_of: Vec<u32>,
	pub final_table_free: bool,
	/// raw operations counted while the fault plan was armed
	pub fault_ops: u32,
	pub step_ranges: Vec<StepRange>,
}

enum Cmd {
	Step(usize, Step),
	Finish,
}

fn make_env(world_spec: &WorldSpec, nthreads: usize, opts: Opts) -> Result<Arc<Env>, String> {
	Sem::valid(world_spec)?;
	let sem = Sem::new(world_spec);
	let world = World::build(world_spec);
	let exec = Exec::new(sem.nlocks, nthreads);
	{
		let mut g = exec.lock();
		g.group_of = sem.group_of.clone();
	}
	let shared = Shared { shadow: vec![0; sem.nlocks], ..Default::default() };
	Ok(Arc::new(Env { world, sem, exec, shared: Mutex::new(shared), opts }))
}

fn finish_thread(env: &Env, ctx: &mut ThreadCtx) {
	// drop whatever the history left alive
	let tid = ctx.tid;
	if let Some(h) = ctx.guard.take() {
		env.exec.begin_call(tid, CallKind::Release, "final drop");
		let r = std::panic::catch_unwind(std::panic::AssertUnwindSafe(move || drop(h)));
		env.exec.end_call(tid);
		let _ = r;
	}
	ctx.key = None;
}

fn collect(env: &Arc<Env>, hung: bool) -> RunResult {
	let mut r = RunResult::default();
	{
		let sh = env.sh();
		r.findings = sh.findings.clone();
		r.labels = sh.labels.clone();
		r.log = sh.log.clone();
		r.executed_steps = sh.executed_steps;
		r.skipped_steps = sh.skipped_steps;
		r.acq_orders = sh.acq_orders.clone();
		r.step_ranges = sh.step_ranges.clone();
	}
	{
		let g = env.exec.lock();
		r.events = g.trace.clone();
		r.frames = g.frames.clone();
		r.trace = g.trace.iter().map(|e| e.show()).collect();
		r.notices = g.notices.clone();
		r.aborted = g.abort;
		r.raw_ops = g.trace.len();
		r.fault_fired = g.fault_fired.clone();
		r.fault_ops = g.op_counter;
		r.group_of = g.group_of.clone();
		if let Some(s) = &g.sched {
			r.sched_points = s.steps;
			r.branch_points = s.branch_points;
			r.switches = s.switches;
			r.taken = s.taken.clone();
		}
		r.waited = g.trace.iter().any(|e| e.out == Outcome::OkWaited);
	}
	r.rejected = env.world.colls.iter().enumerate().filter(|(_, c)| c.status == BuildStatus::Rejected).map(|(i, _)| i).collect();
	r.skipped_colls = env.world.colls.iter().enumerate().filter(|(_, c)| c.status == BuildStatus::Skipped).map(|(i, _)| i).collect();
	if hung {
		r.inconclusive = Some("watchdog: a logical thread did not finish".into());
	}
	for n in &r.notices {
		match n {
			Notice::StepCap => r.inconclusive = Some("step cap reached without a detected cycle".into()),
			_ => {}
		}
	}
	r
}

/// After all guards are gone: every lock must be free again, apart from the
/// holds the history leaked on purpose and the phantom holders.
fn final_table_check(env: &Env) -> bool {
	let table = env.exec.table();
	let released = env.exec.lock().released_transients.clone();
	let sh = env.sh();
	let mut ok = true;
	let mut detail = Vec::new();
	for (lid, (x, s)) in table.iter().enumerate() {
		let lid = lid as Lid;
		let mut exp_x: Option<Tid> = None;
		let mut exp_s: Vec<Tid> = Vec::new();
		for (t, l, shr) in &sh.leaked {
			if *l == lid {
				if *shr {
					exp_s.push(*t)
				} else {
					exp_x = Some(*t)
				}
			}
		}
		for (l, shr, who) in &sh.phantoms {
			if released.contains(&(*l, *who)) {
				continue;
			}
			if *l == lid {
				if *shr {
					exp_s.push(*who)
				} else {
					exp_x = Some(*who)
				}
			}
		}
		exp_s.sort();
		if *x != exp_x || *s != exp_s {
			ok = false;
			detail.push(format!("L{lid}: excl={x:?} shared={s:?}, expected excl={exp_x:?} shared={exp_s:?}"));
		}
	}
	drop(sh);
	if !ok {
		env.finding(
			"C05",
			0,
			"not-free-at-end",
			format!("after every guard was dropped some locks are still held: {}", detail.join("; ")),
		);
	}
	ok
}

// ---------------------------------------------------------------------------
// per-worker pool of OS threads whose ThreadKey is known to be free.  Spawning
// a thread per logical thread per case makes 16 workers fight over the
// process-wide mmap lock; a thread is reused only if, after its job, its key is
// obtainable again (a case that leaks the key retires the thread).

type Job = Box<dyn FnOnce() + Send + 'static>;

pub struct KeyThread {
	tx: mpsc::Sender<Job>,
	done: mpsc::Receiver<bool>,
}

thread_local! {
	static POOL: std::cell::RefCell<Vec<KeyThread>> = const { std::cell::RefCell::new(Vec::new()) };
}

fn spawn_key_thread() -> KeyThread {
	let (tx, rx) = mpsc::channel::<Job>();
	let (dtx, drx) = mpsc::channel::<bool>();
	std::thread::Builder::new()
		.stack_size(1 << 20)
		.spawn(move || {
			while let Ok(job) = rx.recv() {
				let _ = std::panic::catch_unwind(std::panic::AssertUnwindSafe(job));
				uninstall();
				let clean = match ThreadKey::get() {
					Some(k) => {
						drop(k);
						true
					}
					None => false,
				};
				if dtx.send(clean).is_err() || !clean {
					break;
				}
			}
		})
		.expect("spawn");
	KeyThread { tx, done: drx }
}

pub fn take_thread() -> KeyThread {
	POOL.with(|p| p.borrow_mut().pop()).unwrap_or_else(spawn_key_thread)
}

impl KeyThread {
	pub fn start(&self, job: Job) {
		let _ = self.tx.send(job);
	}
	/// wait for the job to end; the thread goes back to the pool if its key is free
	pub fn finish(self, timeout: Duration) -> bool {
		match self.done.recv_timeout(timeout) {
			Ok(true) => {
				POOL.with(|p| {
					let mut p = p.borrow_mut();
					if p.len() < 8 {
						p.push(self);
					}
				});
				true
			}
			Ok(false) => true,
			Err(_) => false,
		}
	}
}

thread_local! {
	/// this OS thread's ThreadKey can no longer be trusted to be free (a case
	/// leaked it, or a broken tree lost it): run cases on fresh threads instead
	static KEY_DIRTY: std::cell::Cell<bool> = const { std::cell::Cell::new(false) };
}

fn case_forgets(case: &SeqCase) -> bool {
	case.steps.iter().any(|(t, s)| *t as usize % (case.nthreads.max(1) as usize) == 0 && matches!(s, Step::ForgetKey | Step::Release { how: ReleaseHow::Forget }))
}

pub fn run_seq(case: &SeqCase, opts: Opts) -> RunResult {
	silence_panics();
	if KEY_DIRTY.with(|d| d.get()) || case_forgets(case) {
		// a fresh OS thread has a fresh key
		let case = case.clone();
		let (rtx, rrx) = mpsc::channel::<RunResult>();
		let th = take_thread();
		th.start(Box::new(move || {
			let r = run_seq_inner(&case, opts);
			let _ = rtx.send(r);
		}));
		let r = rrx
			.recv_timeout(Duration::from_secs(120))
			.unwrap_or_else(|_| RunResult { inconclusive: Some("harness thread panicked or hung".into()), ..Default::default() });
		th.finish(Duration::from_secs(5));
		return r;
	}
	let r = run_seq_inner(case, opts);
	match ThreadKey::get() {
		Some(k) => drop(k),
		None => KEY_DIRTY.with(|d| d.set(true)),
	}
	r
}

/// Logical thread 0 runs on the calling OS thread; the others get their own
/// OS thread and are driven step by step through channels.
fn run_seq_inner(case: &SeqCase, opts: Opts) -> RunResult {
	let n = case.nthreads.max(1) as usize;
	let env = match make_env(&case.world, n, opts) {
		Ok(e) => e,
		Err(e) => return RunResult { invalid: Some(e), ..Default::default() },
	};
	let (done_tx, done_rx) = mpsc::channel::<(Tid, bool)>();
	let mut cmd_txs = Vec::new();
	let mut handles = Vec::new();
	for t in 1..n {
		let (tx, rx) = mpsc::channel::<Cmd>();
		cmd_txs.push(tx);
		let env = env.clone();
		let done = done_tx.clone();
		let h = take_thread();
		h.start(Box::new(move || {
			install(&env.exec, t as Tid);
			let mut ctx = ThreadCtx::new(t as Tid);
			while let Ok(cmd) = rx.recv() {
				match cmd {
					Cmd::Step(idx, step) => {
						let aborted = guarded_step(&env, &mut ctx, idx, &step);
						let _ = done.send((t as Tid, aborted));
					}
					Cmd::Finish => {
						finish_thread(&env, &mut ctx);
						drop(ctx);
						let _ = done.send((t as Tid, false));
						break;
					}
				}
			}
			uninstall();
			drop(env);
		}));
		handles.push(h);
	}
	install(&env.exec, 0);
	let mut ctx0 = ThreadCtx::new(0);
	let mut hung = false;
	let mut aborted = false;
	for (idx, (tid, step)) in case.steps.iter().enumerate() {
		let t = (*tid as usize) % n;
		if let Some(f) = &case.fault {
			if f.at_step == idx {
				env.exec.arm_faults(f.plan.clone());
			}
		}
		if t == 0 {
			if guarded_step(&env, &mut ctx0, idx, step) {
				aborted = true;
			}
		} else {
			if cmd_txs[t - 1].send(Cmd::Step(idx, step.clone())).is_err() {
				hung = true;
				break;
			}
			match done_rx.recv_timeout(Duration::from_secs(30)) {
				Ok((_, a)) => {
					if a {
						aborted = true;
					}
				}
				Err(_) => {
					hung = true;
					env.exec.set_abort();
					break;
				}
			}
		}
		if let Some(f) = &case.fault {
			if f.at_step == idx {
				env.exec.disarm_faults();
			}
		}
		if aborted {
			break;
		}
	}
	finish_thread(&env, &mut ctx0);
	drop(ctx0);
	uninstall();
	if !hung {
		for tx in &cmd_txs {
			let _ = tx.send(Cmd::Finish);
		}
		for _ in 1..n {
			if done_rx.recv_timeout(Duration::from_secs(30)).is_err() {
				hung = true;
				env.exec.set_abort();
				break;
			}
		}
	}
	drop(cmd_txs);
	let mut all_joined = true;
	if !hung {
		for h in handles {
			if !h.finish(Duration::from_secs(30)) {
				all_joined = false;
			}
		}
	} else {
		all_joined = false;
	}
	let mut free = true;
	if !hung && !env.exec.is_abort() && case.fault.is_none() {
		free = final_table_check(&env);
	}
	let mutated = false;
	for n in env.exec.notices() {
		if let Notice::NoProgress { tid, cycle_len, reps } = n {
			env.finding(
				"C01",
				tid,
				if mutated { "no-progress-cycle|collection-mutated-after-check" } else { "no-progress-cycle" },
				format!("thread {tid} repeats the same {cycle_len} raw operations {reps} times without any change"),
			);
		}
	}
	let mut r = collect(&env, hung);
	r.final_table_free = free;
	if !all_joined {
		// some thread may still reference the arena: leak it
		std::mem::forget(env);
		crate::quarantine::abandon_region();
	}
	r
}

/// run one step; true = the case is over (aborted)
fn guarded_step(env: &Arc<Env>, ctx: &mut ThreadCtx, idx: usize, step: &Step) -> bool {
	let t = ctx.tid;
	let r = std::panic::catch_unwind(std::panic::AssertUnwindSafe(|| run_step(env, ctx, idx, step)));
	match r {
		Ok(StepEnd::Continue) => false,
		Ok(StepEnd::Aborted) => true,
		Err(p) => {
			match classify_panic(p) {
				PanicKind::Abort => {}
				PanicKind::Other(m) => env.finding("PANIC", t, format!("harness-panic|{}", first_words(&m)), m),
				_ => env.finding("PANIC", t, "harness-panic|escaped", "a panic escaped the step interpreter"),
			}
			true
		}
	}
}

pub fn run_conc(case: &ConcCase, opts: Opts) -> RunResult {
	silence_panics();
	let n = case.programs.len();
	if n == 0 || n > 6 {
		return RunResult { invalid: Some("thread count".into()), ..Default::default() };
	}
	let env = match make_env(&case.world, n, opts) {
		Ok(e) => e,
		Err(e) => return RunResult { invalid: Some(e), ..Default::default() },
	};
	{
		let mut g = env.exec.lock();
		g.sched = Some(Sched {
			status: vec![ThStatus::NotStarted; n],
			current: None,
			choices: case.schedule.clone(),
			pos: 0,
			steps: 0,
			step_cap: 6000,
			switches: 0,
			branch_points: 0,
			taken: Vec::new(),
			stagnation: 0,
			writer_pref: case.writer_pref,
			forced: case.forced.clone(),
			wait_noted: vec![false; n],
		});
	}
	let (done_tx, done_rx) = mpsc::channel::<Tid>();
	let mut handles = Vec::new();
	for t in 0..n {
		let env = env.clone();
		let done = done_tx.clone();
		let prog = case.programs[t].clone();
		let h = take_thread();
		h.start(Box::new(move || {
			{
				install(&env.exec, t as Tid);
				let mut ctx = ThreadCtx::new(t as Tid);
				let started = env.exec.thread_start(t as Tid).is_ok();
				if started {
					ctx.key = ThreadKey::get();
					if ctx.key.is_none() {
						env.finding("C06", t as Tid, "key-not-obtainable|thread-start", "a fresh thread could not obtain its key");
					}
					for (idx, step) in prog.iter().enumerate() {
						let r = std::panic::catch_unwind(std::panic::AssertUnwindSafe(|| run_step(&env, &mut ctx, idx, step)));
						match r {
							Ok(StepEnd::Continue) => {}
							Ok(StepEnd::Aborted) => break,
							Err(p) => {
								match classify_panic(p) {
									PanicKind::Abort => {}
									PanicKind::Other(m) => env.finding("PANIC", t as Tid, format!("harness-panic|{}", first_words(&m)), m),
									_ => env.finding("PANIC", t as Tid, "harness-panic|escaped", "a panic escaped the step interpreter"),
								}
								break;
							}
						}
					}
				}
				finish_thread(&env, &mut ctx);
				drop(ctx);
				env.exec.thread_finish(t as Tid);
				uninstall();
				drop(env);
				let _ = done.send(t as Tid);
			}
		}));
		handles.push(h);
	}
	let mut hung = false;
	for _ in 0..n {
		if done_rx.recv_timeout(Duration::from_secs(30)).is_err() {
			hung = true;
			env.exec.set_abort();
			// give the threads a moment to unwind
			std::thread::sleep(Duration::from_millis(200));
			break;
		}
	}
	let mut all_joined = true;
	if !hung {
		for h in handles {
			if !h.finish(Duration::from_secs(30)) {
				all_joined = false;
			}
		}
	} else {
		all_joined = false;
	}
	let mut free = true;
	if !hung && !env.exec.is_abort() {
		free = final_table_check(&env);
	}
	// scheduler-level notices become findings
	for n in env.exec.notices() {
		match n {
			Notice::Deadlock { waiting } => {
				let d: Vec<String> = waiting
					.iter()
					.map(|(t, l, op, holders)| format!("t{t} waits {} L{l} held by {holders:?}", op.short()))
					.collect();
				env.finding("C01", 0, "deadlock", format!("every unfinished thread is waiting: {}", d.join("; ")));
			}
			Notice::NoProgress { tid, cycle_len, reps } => {
				env.finding(
					"C01",
					tid,
					"no-progress-cycle",
					format!("thread {tid} repeats the same {cycle_len} raw operations {reps} times without any change"),
				);
			}
			_ => {}
		}
	}
	let mut r = collect(&env, hung);
	r.final_table_free = free;
	if !all_joined {
		std::mem::forget(env);
		crate::quarantine::abandon_region();
	}
	r
}
