//! Per-execution state shared by the verification raw locks: owner table,
//! trace, release audit, fault plan, API-call frames and (for CONC) the
//! baton scheduler.  One `Exec` per generated case; every OS thread that takes
//! part in the case installs it in a thread-local together with its logical
//! thread id.

use serde::{Deserialize, Serialize};
use std::cell::{Cell, RefCell};
use std::sync::{Arc, Condvar, Mutex};

pub type Tid = u8;
pub type Lid = u32;
/// first phantom ("some other thread") holder id; PHANTOM+k are distinct phantoms
pub const PHANTOM: Tid = 200;
/// transient phantoms (release when blocked upon) use ids PHANTOM_T..PHANTOM
pub const PHANTOM_T: Tid = 150;

#[derive(Clone, Copy, PartialEq, Eq, Debug, Hash, Serialize, Deserialize)]
pub enum Op {
	Lock,
	TryLock,
	Unlock,
	LockSh,
	TryLockSh,
	UnlockSh,
}

impl Op {
	pub fn is_blocking(self) -> bool {
		matches!(self, Op::Lock | Op::LockSh)
	}
	pub fn is_acquire(self) -> bool {
		!matches!(self, Op::Unlock | Op::UnlockSh)
	}
	pub fn is_release(self) -> bool {
		matches!(self, Op::Unlock | Op::UnlockSh)
	}
	pub fn is_shared(self) -> bool {
		matches!(self, Op::LockSh | Op::TryLockSh | Op::UnlockSh)
	}
	pub fn short(self) -> &'static str {
		match self {
			Op::Lock => "lock_x",
			Op::TryLock => "try_x",
			Op::Unlock => "unlock_x",
			Op::LockSh => "lock_s",
			Op::TryLockSh => "try_s",
			Op::UnlockSh => "unlock_s",
		}
	}
	pub fn bit(self) -> u8 {
		1 << (self as u8)
	}
}

#[derive(Clone, Copy, PartialEq, Eq, Debug, Hash, Serialize, Deserialize)]
pub enum Outcome {
	/// acquired / released
	Ok,
	/// acquired after having been found not grantable at least once (CONC)
	OkWaited,
	/// try_* returned false
	Fail,
	/// a blocking request that could not be granted in sequential mode
	WouldWait,
	/// a blocking request for a lock the requester itself holds
	SelfWait,
	/// the release was not legal; lock state untouched
	Illegal(IllegalKind),
	/// the fault plan made this operation panic (no effect on lock state)
	Faulted,
}

#[derive(Clone, Copy, PartialEq, Eq, Debug, Hash, Serialize, Deserialize)]
pub enum IllegalKind {
	/// nobody holds the lock at all
	NotHeld,
	/// held, but not by the releasing thread
	Foreign,
	/// the releasing thread holds it in the other mode
	WrongMode,
}

#[derive(Clone, Copy, PartialEq, Eq, Debug, Hash, Serialize, Deserialize)]
pub enum CallKind {
	/// lock / read / scoped_lock / scoped_read (may wait)
	AcquireBlocking,
	/// try_lock / try_read / scoped_try_*
	AcquireTry,
	/// guard drop, unlock fn
	Release,
	/// Debug, accessors, constructors, poison flag ops
	NonAcquiring,
	/// harness bookkeeping (phantom holds and the like)
	Harness,
}

#[derive(Clone, Debug, Serialize, Deserialize)]
pub struct Event {
	pub idx: u32,
	pub tid: Tid,
	pub lid: Lid,
	pub op: Op,
	pub out: Outcome,
	/// API-call frame the operation was issued in (0 = none)
	pub frame: u32,
}

impl Event {
	pub fn show(&self) -> String {
		format!(
			"#{} t{} {} L{} {}{}",
			self.idx,
			self.tid,
			self.op.short(),
			self.lid,
			match self.out {
				Outcome::Ok => "ok".to_string(),
				Outcome::OkWaited => "ok(after wait)".to_string(),
				Outcome::Fail => "fail".to_string(),
				Outcome::WouldWait => "WOULD-WAIT".to_string(),
				Outcome::SelfWait => "SELF-WAIT".to_string(),
				Outcome::Illegal(k) => format!("ILLEGAL({k:?})"),
				Outcome::Faulted => "FAULT(panic)".to_string(),
			},
			if self.frame != 0 { format!(" f{}", self.frame) } else { String::new() }
		)
	}
}

#[derive(Clone, Debug, Serialize, Deserialize)]
pub struct Frame {
	pub id: u32,
	pub tid: Tid,
	pub kind: CallKind,
	pub label: String,
	/// index into the trace where the frame started
	pub start: u32,
	/// index into the trace one past the last event (filled by end_call)
	pub end: u32,
	/// enclosing frame of the same thread (a Debug call inside a closure, ...)
	pub parent: u32,
}

/// Things the raw locks and the scheduler notice by themselves.  Each property
/// check filters the kinds it is responsible for.
#[derive(Clone, Debug, Serialize, Deserialize, PartialEq)]
pub enum Notice {
	IllegalRelease {
		tid: Tid,
		lid: Lid,
		op: Op,
		kind: IllegalKind,
		frame: u32,
		during_fault: bool,
		/// other threads hold the lock at this moment (a release in the wrong
		/// mode resets a real reader-writer lock for all of them)
		#[serde(default)]
		others: bool,
	},
	/// first raw operation of an acquiring call while the caller holds something
	AcquireWhileHolding { tid: Tid, frame: u32, held: Vec<(Lid, bool)> },
	/// a blocking request inside a try_* call that was not grantable
	BlockingInTry { tid: Tid, lid: Lid, frame: u32 },
	/// a blocking raw acquisition (grantable or not) inside a try_* call
	BlockingOpInTry { tid: Tid, lid: Lid, frame: u32 },
	/// any waiting inside a non-acquiring operation
	WaitInNonAcquiring { tid: Tid, lid: Lid, frame: u32 },
	SelfWait { tid: Tid, lid: Lid, frame: u32 },
	WouldWait { tid: Tid, lid: Lid, frame: u32, holders: Vec<Tid> },
	Deadlock { waiting: Vec<(Tid, Lid, Op, Vec<Tid>)> },
	NoProgress { tid: Tid, cycle_len: usize, reps: usize },
	/// retrying acquisition found waiting while holding
	HoldAndWait { tid: Tid, lid: Lid, frame: u32, held: Vec<Lid> },
	/// retrying acquisition: after a failed try on `failed` the thread went on
	/// to another acquisition attempt while still holding `held`
	HoldAndSpin { tid: Tid, lid: Lid, failed: Lid, frame: u32, held: Vec<Lid> },
	StepCap,
	/// ThreadKey::get() would have handed out a key at a raw operation issued
	/// while the thread holds locks
	KeyFreeWhileHolding { tid: Tid, lid: Lid, op: Op, frame: u32, held: Vec<(Lid, bool)> },
}

#[derive(Clone, Debug, Default, Serialize, Deserialize, PartialEq)]
pub struct FaultPlan {
	/// panic at the raw operation with this global index (counted from arm())
	pub one_shot: Option<u32>,
	/// (lock, bitmask of Op::bit()) operations that always panic
	pub persistent: Vec<(Lid, u8)>,
}

#[derive(Clone, Default)]
pub struct LockState {
	pub excl: Option<Tid>,
	pub shared: Vec<Tid>,
}

impl LockState {
	pub fn is_free(&self) -> bool {
		self.excl.is_none() && self.shared.is_empty()
	}
	pub fn holders(&self) -> Vec<Tid> {
		let mut v: Vec<Tid> = self.shared.clone();
		if let Some(t) = self.excl {
			v.push(t);
		}
		v
	}
}

#[derive(Clone, Debug)]
pub enum ThStatus {
	NotStarted,
	Running,
	Pending(Pending),
	Finished,
}

#[derive(Clone, Debug)]
pub enum Pending {
	Start,
	Yield,
	Raw { lid: Lid, op: Op },
}

pub struct Sched {
	pub status: Vec<ThStatus>,
	pub current: Option<Tid>,
	pub choices: Vec<u8>,
	pub pos: usize,
	pub steps: usize,
	pub step_cap: usize,
	pub switches: usize,
	/// number of scheduling points at which more than one thread was enabled
	pub branch_points: usize,
	/// recorded choice made at every scheduling point (index among enabled, n enabled)
	pub taken: Vec<(u8, u8)>,
	/// consecutive points of the current thread without a change of the owner table
	pub stagnation: usize,
	pub writer_pref: bool,
	/// when set, choices are forced from this list (exhaustive enumeration)
	pub forced: Option<Vec<u8>>,
	/// per thread: its pending blocking request was found not grantable at some
	/// moment (on arrival, or later because another thread got there first)
	pub wait_noted: Vec<bool>,
}

pub struct Inner {
	pub locks: Vec<LockState>,
	pub trace: Vec<Event>,
	pub frames: Vec<Frame>,
	pub cur_frame: Vec<u32>, // per tid (index = tid), 0 = none
	pub frame_ops: Vec<u32>, // per tid: raw ops seen in the current frame
	pub notices: Vec<Notice>,
	pub fault: FaultPlan,
	pub armed: bool,
	pub op_counter: u32,
	pub fault_fired: Vec<(u32, Lid, Op, Tid)>,
	pub abort: bool,
	pub sched: Option<Sched>,
	/// table version, bumped on every change of the owner table
	pub table_version: u64,
	/// per thread: which frame labels mark a retrying acquisition (for C09)
	pub retry_frames: Vec<u32>,
	/// per thread: the lock whose try failed inside a retrying frame while
	/// the thread held others (cleared once everything has been let go)
	pub failed_try: Vec<Option<Lid>>,
	/// owned groups: for every lock id, the id of the owned group it lives in (or u32::MAX)
	pub group_of: Vec<u32>,
	pub trace_cap: usize,
	pub ops_after_abort: u32,
	/// logical threads whose user panic is unwinding right now (set by the interpreter)
	pub unwinding: Vec<Tid>,
	/// transient phantom holds that were released because a thread blocked on them
	pub released_transients: Vec<(Lid, Tid)>,
}

pub struct Exec {
	pub inner: Mutex<Inner>,
	pub cv: Condvar,
}

/// payload of the unwinding used to stop a case (blocking request that cannot
/// be granted in sequential mode, tear-down after a deadlock, ...)
pub struct VerifAbort;
/// payload of an injected raw-operation fault
pub struct InjectedFault;
/// payload of an injected user-code panic
pub struct UserPanic;

thread_local! {
	static CUR: RefCell<Option<(Arc<Exec>, Tid)>> = const { RefCell::new(None) };
	pub static NEXT_ID: Cell<Option<Lid>> = const { Cell::new(None) };
	pub static REGISTERING: Cell<bool> = const { Cell::new(false) };
}

pub fn install(exec: &Arc<Exec>, tid: Tid) {
	CUR.with(|c| *c.borrow_mut() = Some((exec.clone(), tid)));
}

pub fn uninstall() {
	CUR.with(|c| *c.borrow_mut() = None);
}

pub fn current() -> Option<(Arc<Exec>, Tid)> {
	CUR.with(|c| c.borrow().clone())
}

pub fn silence_panics() {
	use std::sync::Once;
	static ONCE: Once = Once::new();
	ONCE.call_once(|| {
		let default = std::panic::take_hook();
		std::panic::set_hook(Box::new(move |info| {
			let p = info.payload();
			if p.is::<VerifAbort>() || p.is::<InjectedFault>() || p.is::<UserPanic>() {
				return;
			}
			if let Some(s) = p.downcast_ref::<&str>() {
				if s.contains("has been killed") {
					return;
				}
			}
			if let Some(s) = p.downcast_ref::<String>() {
				if s.contains("has been killed") {
					return;
				}
			}
			if std::env::var_os("HLV_SHOW_PANICS").is_some() || !QUIET_ALL.with(|q| q.get()) {
				default(info);
			}
		}));
	});
}

thread_local! {
	pub static QUIET_ALL: Cell<bool> = const { Cell::new(false) };
}

impl Exec {
	pub fn new(nlocks: usize, nthreads: usize) -> Arc<Exec> {
		Arc::new(Exec {
			inner: Mutex::new(Inner {
				locks: vec![LockState::default(); nlocks],
				trace: Vec::new(),
				frames: Vec::new(),
				cur_frame: vec![0; nthreads.max(1)],
				frame_ops: vec![0; nthreads.max(1)],
				notices: Vec::new(),
				fault: FaultPlan::default(),
				armed: false,
				op_counter: 0,
				fault_fired: Vec::new(),
				abort: false,
				sched: None,
				table_version: 0,
				retry_frames: Vec::new(),
				failed_try: Vec::new(),
				group_of: vec![u32::MAX; nlocks],
				trace_cap: 6_000,
				ops_after_abort: 0,
				unwinding: Vec::new(),
				released_transients: Vec::new(),
			}),
			cv: Condvar::new(),
		})
	}

	pub fn lock(&self) -> std::sync::MutexGuard<'_, Inner> {
		match self.inner.lock() {
			Ok(g) => g,
			Err(p) => p.into_inner(),
		}
	}

	pub fn begin_call(&self, tid: Tid, kind: CallKind, label: &str) -> u32 {
		let mut g = self.lock();
		let id = g.frames.len() as u32 + 1;
		let start = g.trace.len() as u32;
		let parent = g.cur_frame[tid as usize];
		g.frames.push(Frame { id, tid, kind, label: label.to_string(), start, end: u32::MAX, parent });
		g.cur_frame[tid as usize] = id;
		g.frame_ops[tid as usize] = 0;
		if let Some(f) = g.failed_try.get_mut(tid as usize) {
			*f = None;
		}
		id
	}

	/// make room for lock ids below `n` (locks made while a case runs)
	pub fn ensure_locks(&self, n: usize) {
		let mut g = self.lock();
		if n > g.locks.len() {
			g.locks.resize(n, LockState::default());
			g.group_of.resize(n, u32::MAX);
		}
	}

	pub fn frame_label(&self, frame: u32) -> String {
		let g = self.lock();
		if frame == 0 {
			return "no API call".to_string();
		}
		g.frames.get(frame as usize - 1).map(|f| f.label.clone()).unwrap_or_default()
	}

	pub fn end_call(&self, tid: Tid) {
		let mut g = self.lock();
		let id = g.cur_frame[tid as usize];
		let mut parent = 0;
		if id != 0 {
			let end = g.trace.len() as u32;
			g.frames[id as usize - 1].end = end;
			parent = g.frames[id as usize - 1].parent;
		}
		g.cur_frame[tid as usize] = parent;
		// the enclosing frame is past its first raw operation by construction
		g.frame_ops[tid as usize] = 1;
	}

	/// Switch the frame kind of the running call (a guard call that finished
	/// acquiring and now only releases, for example).
	pub fn set_call_kind(&self, tid: Tid, kind: CallKind) {
		let mut g = self.lock();
		let id = g.cur_frame[tid as usize];
		if id != 0 {
			g.frames[id as usize - 1].kind = kind;
		}
	}

	pub fn mark_retry_frame(&self, frame: u32) {
		self.lock().retry_frames.push(frame);
	}

	pub fn held_by(&self, tid: Tid) -> Vec<(Lid, bool)> {
		self.lock().held_by(tid)
	}

	pub fn table(&self) -> Vec<(Option<Tid>, Vec<Tid>)> {
		let g = self.lock();
		g.locks
			.iter()
			.map(|l| {
				let mut s = l.shared.clone();
				s.sort();
				(l.excl, s)
			})
			.collect()
	}

	pub fn phantom_hold(&self, lid: Lid, shared: bool, who: Tid) -> bool {
		let mut g = self.lock();
		let l = &mut g.locks[lid as usize];
		if shared {
			if l.excl.is_some() {
				return false;
			}
			l.shared.push(who);
		} else {
			if !l.is_free() {
				return false;
			}
			l.excl = Some(who);
		}
		g.table_version += 1;
		true
	}

	pub fn phantom_release(&self, lid: Lid, who: Tid) -> bool {
		let mut g = self.lock();
		let l = &mut g.locks[lid as usize];
		let mut done = false;
		if l.excl == Some(who) {
			l.excl = None;
			done = true;
		} else if let Some(p) = l.shared.iter().position(|t| *t == who) {
			l.shared.remove(p);
			done = true;
		}
		if done {
			g.table_version += 1;
		}
		done
	}

	pub fn arm_faults(&self, plan: FaultPlan) {
		let mut g = self.lock();
		g.fault = plan;
		g.armed = true;
		g.op_counter = 0;
	}

	pub fn disarm_faults(&self) {
		let mut g = self.lock();
		g.armed = false;
	}

	pub fn set_abort(&self) {
		let mut g = self.lock();
		g.abort = true;
		drop(g);
		self.cv.notify_all();
	}

	pub fn is_abort(&self) -> bool {
		self.lock().abort
	}

	pub fn notices(&self) -> Vec<Notice> {
		self.lock().notices.clone()
	}

	pub fn trace_len(&self) -> usize {
		self.lock().trace.len()
	}

	pub fn trace_from(&self, from: usize) -> Vec<Event> {
		let g = self.lock();
		g.trace[from.min(g.trace.len())..].to_vec()
	}

	pub fn op_counter(&self) -> u32 {
		self.lock().op_counter
	}

	pub fn show_trace(&self, max: usize) -> Vec<String> {
		let g = self.lock();
		let n = g.trace.len();
		let from = n.saturating_sub(max);
		g.trace[from..].iter().map(|e| e.show()).collect()
	}
}

impl Inner {
	/// The pending blocking request `op` on `lid` of `tid` cannot be granted
	/// right now: the thread waits.  Recorded once per request.
	pub fn note_wait(&mut self, tid: Tid, lid: Lid, op: Op) {
		if let Some(s) = self.sched.as_mut() {
			if (tid as usize) < s.wait_noted.len() {
				s.wait_noted[tid as usize] = true;
			}
		}
		let frame = self.cur_frame.get(tid as usize).copied().unwrap_or(0);
		let l = &self.locks[lid as usize];
		let self_held = l.excl == Some(tid) || (!op.is_shared() && l.shared.contains(&tid));
		if self_held {
			self.notices.push(Notice::SelfWait { tid, lid, frame });
		}
		let fkind = if frame != 0 { Some(self.frames[frame as usize - 1].kind) } else { None };
		match fkind {
			Some(CallKind::AcquireTry) => self.notices.push(Notice::BlockingInTry { tid, lid, frame }),
			Some(CallKind::NonAcquiring) | Some(CallKind::Release) => self.notices.push(Notice::WaitInNonAcquiring { tid, lid, frame }),
			_ => {}
		}
		if frame != 0 && self.retry_frames.contains(&frame) {
			let grp = self.group_of[lid as usize];
			let held: Vec<Lid> = self.held_by(tid).into_iter().map(|(l, _)| l).filter(|l| grp == u32::MAX || self.group_of[*l as usize] != grp).collect();
			if !held.is_empty() {
				self.notices.push(Notice::HoldAndWait { tid, lid, frame, held });
			}
		}
	}

	pub fn held_by(&self, tid: Tid) -> Vec<(Lid, bool)> {
		let mut v = Vec::new();
		for (i, l) in self.locks.iter().enumerate() {
			if l.excl == Some(tid) {
				v.push((i as Lid, false));
			}
			for t in &l.shared {
				if *t == tid {
					v.push((i as Lid, true));
				}
			}
		}
		v
	}

	fn pending_writer_on(&self, lid: Lid, except: Tid) -> bool {
		if let Some(s) = &self.sched {
			if !s.writer_pref {
				return false;
			}
			for (t, st) in s.status.iter().enumerate() {
				if t as Tid == except {
					continue;
				}
				if let ThStatus::Pending(Pending::Raw { lid: l, op: Op::Lock }) = st {
					if *l == lid {
						return true;
					}
				}
			}
		}
		false
	}

	pub fn grantable(&self, tid: Tid, lid: Lid, shared: bool) -> bool {
		let l = &self.locks[lid as usize];
		if shared {
			l.excl.is_none() && !self.pending_writer_on(lid, tid)
		} else {
			l.is_free()
		}
	}

	fn push_event(&mut self, tid: Tid, lid: Lid, op: Op, out: Outcome) {
		let idx = self.trace.len() as u32;
		let frame = self.cur_frame.get(tid as usize).copied().unwrap_or(0);
		if self.trace.len() < self.trace_cap {
			self.trace.push(Event { idx, tid, lid, op, out, frame });
		}
	}

	/// The trace reached its cap: decide between a deterministic no-progress
	/// cycle (one thread repeating the same raw operations with the same
	/// outcomes) and a plain "too long" (inconclusive).
	pub fn on_cap(&mut self, tid: Tid) {
		if self.abort {
			return;
		}
		self.abort = true;
		let n = self.trace.len();
		let tail = &self.trace[n.saturating_sub(1200)..];
		if tail.iter().all(|e| e.tid == tid) && tail.len() >= 400 {
			let key = |e: &Event| (e.lid, e.op, e.out);
			for p in 1..=100usize {
				if tail.len() < p * 8 {
					break;
				}
				let ok = (p..tail.len()).all(|i| key(&tail[i]) == key(&tail[i - p]));
				if ok {
					self.notices.push(Notice::NoProgress { tid, cycle_len: p, reps: tail.len() / p });
					return;
				}
			}
		}
		self.notices.push(Notice::StepCap);
	}

	fn fault_hits(&mut self, tid: Tid, lid: Lid, op: Op) -> bool {
		if !self.armed {
			return false;
		}
		let idx = self.op_counter;
		self.op_counter += 1;
		let mut hit = self.fault.one_shot == Some(idx);
		if !hit {
			hit = self.fault.persistent.iter().any(|(l, m)| *l == lid && (m & op.bit()) != 0);
		}
		if hit {
			self.fault_fired.push((idx, lid, op, tid));
		}
		hit
	}
}

enum Decision {
	Done(bool),
	PanicAbort,
	PanicFault,
}

thread_local! {
	static UNWIND_DROP: std::cell::Cell<u32> = const { std::cell::Cell::new(0) };
}

/// the interpreter is running a step from a destructor during an unwinding
pub fn set_unwind_drop(on: bool) {
	UNWIND_DROP.with(|c| c.set(if on { c.get() + 1 } else { c.get().saturating_sub(1) }));
}

fn in_unwind_drop() -> bool {
	UNWIND_DROP.with(|c| c.get() > 0)
}

/// Entry point used by the verification raw locks for every raw operation.
/// Returns the boolean result for try operations (true for the others).
pub fn raw_op(lid: Lid, op: Op) -> bool {
	let Some((exec, tid)) = current() else {
		// no execution installed: behave as an always-free lock
		return true;
	};
	// a raw lock is user code: it may ask for the thread's key.  While the
	// thread holds anything the key must not be obtainable (getting and
	// dropping it here leaves the key cell as it was)
	if happylock::ThreadKey::get().is_some() {
		exec.note_key_free(tid, lid, op);
	}
	let d = exec.raw_op_inner(tid, lid, op);
	match d {
		Decision::Done(b) => {
			// while a panic unwinds, what the library does right AFTER a release
			// (setting a poison flag, resetting its bookkeeping) is not a raw
			// operation, so the scheduling point in front of the next raw
			// operation would come too late to separate the two: another thread
			// may run between the release and whatever follows it
			if op.is_release() && (std::thread::panicking() || exec.is_unwinding(tid)) {
				let _ = exec.yield_point(tid);
			}
			b
		}
		Decision::PanicAbort => {
			// while a panic unwinds, cleanup code (guard drops, handlers) must not
			// be hit by a second panic; a *blocking acquisition* issued from a
			// destructor that the interpreter runs on purpose during an unwinding
			// (Step::UnwindingDrop) is not cleanup and is ended like any other
			if std::thread::panicking() && !(op.is_blocking() && in_unwind_drop()) {
				true
			} else {
				std::panic::panic_any(VerifAbort)
			}
		}
		Decision::PanicFault => std::panic::panic_any(InjectedFault),
	}
}

impl Exec {
	fn note_key_free(&self, tid: Tid, lid: Lid, op: Op) {
		let mut g = self.lock();
		if g.abort {
			return;
		}
		let held = g.held_by(tid);
		if !held.is_empty() {
			let frame = g.cur_frame.get(tid as usize).copied().unwrap_or(0);
			g.notices.push(Notice::KeyFreeWhileHolding { tid, lid, op, frame, held });
		}
	}

	fn raw_op_inner(&self, tid: Tid, lid: Lid, op: Op) -> Decision {
		let mut g = self.lock();
		if g.abort {
			// a thread that keeps issuing non-blocking operations after the
			// abort (a try-spin) must be unwound as well
			g.ops_after_abort += 1;
			return if op.is_blocking() || g.ops_after_abort > 2000 {
				Decision::PanicAbort
			} else {
				Decision::Done(!op.is_acquire())
			};
		}
		if g.trace.len() >= g.trace_cap {
			g.on_cap(tid);
			drop(g);
			self.cv.notify_all();
			return if op.is_blocking() { Decision::PanicAbort } else { Decision::Done(!op.is_acquire()) };
		}
		if (lid as usize) >= g.locks.len() {
			let n = lid as usize + 1;
			g.locks.resize(n, LockState::default());
			g.group_of.resize(n, u32::MAX);
		}
		let frame = g.cur_frame.get(tid as usize).copied().unwrap_or(0);
		let fkind = if frame != 0 { Some(g.frames[frame as usize - 1].kind) } else { None };

		// first raw operation of an acquiring call: the caller must hold nothing
		if frame != 0 {
			let first = g.frame_ops[tid as usize] == 0;
			g.frame_ops[tid as usize] += 1;
			if first && matches!(fkind, Some(CallKind::AcquireBlocking | CallKind::AcquireTry)) {
				let held = g.held_by(tid);
				if !held.is_empty() {
					g.notices.push(Notice::AcquireWhileHolding { tid, frame, held });
				}
			}
		}
		if op.is_blocking() && matches!(fkind, Some(CallKind::AcquireTry)) {
			g.notices.push(Notice::BlockingOpInTry { tid, lid, frame });
		}
		// retrying acquisition: once a try has failed, the next attempt of any
		// kind comes only after everything taken so far has been let go
		if op.is_acquire() && frame != 0 && g.retry_frames.contains(&frame) {
			if let Some(failed) = g.failed_try.get(tid as usize).copied().flatten() {
				let (g1, g2) = (g.group_of[lid as usize], g.group_of[failed as usize]);
				let held: Vec<Lid> = g
					.held_by(tid)
					.into_iter()
					.map(|(l, _)| l)
					.filter(|l| {
						let gl = g.group_of[*l as usize];
						gl == u32::MAX || (gl != g1 && gl != g2)
					})
					.collect();
				if held.is_empty() {
					g.failed_try[tid as usize] = None;
				} else {
					g.notices.push(Notice::HoldAndSpin { tid, lid, failed, frame, held });
					g.failed_try[tid as usize] = None;
				}
			}
		}

		// scheduling point (CONC)
		let mut waited = false;
		if g.sched.is_some() {
			match self.sched_point(g, tid, Pending::Raw { lid, op }, &mut waited) {
				Ok(ng) => g = ng,
				Err(()) => {
					return if op.is_blocking() { Decision::PanicAbort } else { Decision::Done(!op.is_acquire()) };
				}
			}
		}

		// faults
		if g.fault_hits(tid, lid, op) {
			g.push_event(tid, lid, op, Outcome::Faulted);
			return Decision::PanicFault;
		}

		match op {
			Op::Lock | Op::LockSh => {
				let shared = op.is_shared();
				// sequential mode: holders that are transient phantoms finish
				// (release) as soon as somebody blocks on the lock
				if g.sched.is_none() && !g.grantable(tid, lid, shared) {
					let is_t = |t: Tid| (PHANTOM_T..PHANTOM).contains(&t);
					let l = &g.locks[lid as usize];
					let conflicting: Vec<Tid> = if shared { l.excl.into_iter().collect() } else { l.holders() };
					if !conflicting.is_empty() && conflicting.iter().all(|t| is_t(*t)) {
						let l = &mut g.locks[lid as usize];
						let mut rel = Vec::new();
						if let Some(x) = l.excl {
							if is_t(x) {
								l.excl = None;
								rel.push(x);
							}
						}
						if !shared {
							l.shared.retain(|t| {
								if is_t(*t) {
									rel.push(*t);
									false
								} else {
									true
								}
							});
						}
						for t in rel {
							g.released_transients.push((lid, t));
						}
						g.table_version += 1;
						waited = true;
						// the call did wait: the same notices as for a real wait
						match fkind {
							Some(CallKind::AcquireTry) => g.notices.push(Notice::BlockingInTry { tid, lid, frame }),
							Some(CallKind::NonAcquiring) | Some(CallKind::Release) => {
								g.notices.push(Notice::WaitInNonAcquiring { tid, lid, frame })
							}
							_ => {}
						}
						if frame != 0 && g.retry_frames.contains(&frame) {
							let grp = g.group_of[lid as usize];
							let held: Vec<Lid> = g
								.held_by(tid)
								.into_iter()
								.map(|(l, _)| l)
								.filter(|l| grp == u32::MAX || g.group_of[*l as usize] != grp)
								.collect();
							if !held.is_empty() {
								g.notices.push(Notice::HoldAndWait { tid, lid, frame, held });
							}
						}
					}
				}
				let l = &g.locks[lid as usize];
				let self_held = l.excl == Some(tid) || (!shared && l.shared.contains(&tid));
				if g.grantable(tid, lid, shared) {
					let l = &mut g.locks[lid as usize];
					if shared {
						l.shared.push(tid);
					} else {
						l.excl = Some(tid);
					}
					g.table_version += 1;
					g.push_event(tid, lid, op, if waited { Outcome::OkWaited } else { Outcome::Ok });
					Decision::Done(true)
				} else {
					// only reachable in sequential mode (the scheduler never
					// resumes a thread whose request is not grantable)
					let holders = g.locks[lid as usize].holders();
					if self_held {
						g.push_event(tid, lid, op, Outcome::SelfWait);
						g.notices.push(Notice::SelfWait { tid, lid, frame });
					} else {
						g.push_event(tid, lid, op, Outcome::WouldWait);
						g.notices.push(Notice::WouldWait { tid, lid, frame, holders });
					}
					match fkind {
						Some(CallKind::AcquireTry) => g.notices.push(Notice::BlockingInTry { tid, lid, frame }),
						Some(CallKind::NonAcquiring) | Some(CallKind::Release) => {
							g.notices.push(Notice::WaitInNonAcquiring { tid, lid, frame })
						}
						_ => {}
					}
					g.abort = true;
					drop(g);
					self.cv.notify_all();
					Decision::PanicAbort
				}
			}
			Op::TryLock | Op::TryLockSh => {
				let shared = op.is_shared();
				if g.grantable(tid, lid, shared) {
					let l = &mut g.locks[lid as usize];
					if shared {
						l.shared.push(tid);
					} else {
						l.excl = Some(tid);
					}
					g.table_version += 1;
					g.push_event(tid, lid, op, Outcome::Ok);
					Decision::Done(true)
				} else {
					g.push_event(tid, lid, op, Outcome::Fail);
					if frame != 0 && g.retry_frames.contains(&frame) && !g.held_by(tid).is_empty() {
						if g.failed_try.len() <= tid as usize {
							g.failed_try.resize(tid as usize + 1, None);
						}
						g.failed_try[tid as usize] = Some(lid);
					}
					Decision::Done(false)
				}
			}
			Op::Unlock | Op::UnlockSh => {
				let shared = op.is_shared();
				let l = &mut g.locks[lid as usize];
				let legal = if shared { l.shared.contains(&tid) } else { l.excl == Some(tid) };
				if legal {
					if shared {
						let p = l.shared.iter().position(|t| *t == tid).unwrap();
						l.shared.remove(p);
					} else {
						l.excl = None;
					}
					g.table_version += 1;
					g.push_event(tid, lid, op, Outcome::Ok);
				} else {
					let kind = if l.is_free() {
						IllegalKind::NotHeld
					} else if (shared && l.excl == Some(tid)) || (!shared && l.shared.contains(&tid)) {
						IllegalKind::WrongMode
					} else {
						IllegalKind::Foreign
					};
					let during_fault = !g.fault_fired.is_empty();
					let others = {
						let l = &g.locks[lid as usize];
						l.excl.map(|t| t != tid).unwrap_or(false) || l.shared.iter().any(|t| *t != tid)
					};
					g.push_event(tid, lid, op, Outcome::Illegal(kind));
					g.notices.push(Notice::IllegalRelease { tid, lid, op, kind, frame, during_fault, others });
				}
				Decision::Done(true)
			}
		}
	}

	/// A scheduling point of the CONC engine.  Announces `p` as the pending
	/// operation of `tid`, lets the scheduler pick the next thread and parks
	/// until `tid` is picked.  Err(()) = the execution was aborted.
	fn sched_point<'a>(
		&'a self,
		mut g: std::sync::MutexGuard<'a, Inner>,
		tid: Tid,
		p: Pending,
		waited: &mut bool,
	) -> Result<std::sync::MutexGuard<'a, Inner>, ()> {
		// C09 oracle and "blocking while not grantable" bookkeeping (repeated by
		// pick_next while the request stays pending: another thread may take
		// the lock between this thread's arrival and its turn)
		if let Some(s) = g.sched.as_mut() {
			if (tid as usize) < s.wait_noted.len() {
				s.wait_noted[tid as usize] = false;
			}
		}
		if let Pending::Raw { lid, op } = &p {
			if op.is_blocking() && !g.grantable(tid, *lid, op.is_shared()) {
				g.note_wait(tid, *lid, *op);
			}
		}
		{
			let s = g.sched.as_mut().unwrap();
			s.status[tid as usize] = ThStatus::Pending(p);
		}
		self.pick_next(&mut g, Some(tid));
		self.cv.notify_all();
		loop {
			if g.abort {
				return Err(());
			}
			let s = g.sched.as_ref().unwrap();
			if s.current == Some(tid) {
				break;
			}
			g = match self.cv.wait(g) {
				Ok(g) => g,
				Err(p) => p.into_inner(),
			};
		}
		let s = g.sched.as_mut().unwrap();
		s.status[tid as usize] = ThStatus::Running;
		if s.wait_noted.get(tid as usize).copied().unwrap_or(false) {
			*waited = true;
		}
		Ok(g)
	}

	/// Choose the next thread to run.  `from` is the thread that just reached
	/// a scheduling point (None when called by the controller / a finishing thread).
	fn pick_next(&self, g: &mut Inner, from: Option<Tid>) {
		if g.abort {
			return;
		}
		let n = g.sched.as_ref().unwrap().status.len();
		// wait until every thread has reached its first scheduling point
		if g.sched.as_ref().unwrap().status.iter().any(|s| matches!(s, ThStatus::NotStarted | ThStatus::Running)) {
			// some thread is still running towards a scheduling point: it will pick
			if let Some(s) = g.sched.as_mut() {
				s.current = None;
			}
			// exactly one thread runs at a time, so Running can only be `from`'s
			// own stale state; NotStarted threads will call pick_next themselves
			return;
		}
		let mut enabled: Vec<Tid> = Vec::new();
		for t in 0..n {
			let st = g.sched.as_ref().unwrap().status[t].clone();
			if let ThStatus::Pending(p) = st {
				let ok = match p {
					Pending::Start | Pending::Yield => true,
					Pending::Raw { lid, op } => {
						if op.is_blocking() {
							let ok = g.grantable(t as Tid, lid, op.is_shared());
							if !ok && !g.sched.as_ref().unwrap().wait_noted.get(t).copied().unwrap_or(true) {
								g.note_wait(t as Tid, lid, op);
							}
							ok
						} else {
							true
						}
					}
				};
				if ok {
					enabled.push(t as Tid);
				}
			}
		}
		let unfinished = g.sched.as_ref().unwrap().status.iter().any(|s| !matches!(s, ThStatus::Finished));
		if enabled.is_empty() {
			if unfinished {
				let mut waiting = Vec::new();
				for t in 0..n {
					if let ThStatus::Pending(Pending::Raw { lid, op }) = g.sched.as_ref().unwrap().status[t].clone() {
						waiting.push((t as Tid, lid, op, g.locks[lid as usize].holders()));
					}
				}
				g.notices.push(Notice::Deadlock { waiting });
				g.abort = true;
			}
			if let Some(s) = g.sched.as_mut() {
				s.current = None;
			}
			return;
		}
		// order: current thread first, then the others by id
		if let Some(f) = from {
			if let Some(p) = enabled.iter().position(|t| *t == f) {
				let x = enabled.remove(p);
				enabled.insert(0, x);
			}
		}
		let version = g.table_version;
		let s = g.sched.as_mut().unwrap();
		s.steps += 1;
		if s.steps > s.step_cap {
			let t = from.unwrap_or(0);
			g.on_cap(t);
			return;
		}
		if enabled.len() > 1 {
			s.branch_points += 1;
		}
		let k = enabled.len();
		let mut idx = 0usize;
		if let Some(f) = &s.forced {
			if k > 1 {
				// forced choices are consumed only at branch points
				let used = s.taken.iter().filter(|(_, n)| *n > 1).count();
				idx = f.get(used).copied().unwrap_or(0) as usize;
				if idx >= k {
					idx = k - 1;
				}
			}
		} else if k > 1 {
			if s.pos < s.choices.len() {
				let b = s.choices[s.pos] as usize;
				s.pos += 1;
				idx = (b * k) >> 8;
			} else {
				// run-to-block suffix, with a fairness switch when the running
				// thread makes no progress (try-spin): 64 stagnant points
				idx = 0;
				if s.stagnation >= 64 {
					idx = 1;
					s.stagnation = 0;
				}
			}
		}
		s.taken.push((idx as u8, k as u8));
		let next = enabled[idx];
		if Some(next) != from {
			s.switches += 1;
			s.stagnation = 0;
		} else {
			s.stagnation += 1;
		}
		let _ = version;
		s.current = Some(next);
	}

	/// Called by a logical thread of a CONC execution before anything else.
	pub fn thread_start(&self, tid: Tid) -> Result<(), ()> {
		let g = self.lock();
		if g.sched.is_none() {
			return Ok(());
		}
		let mut w = false;
		self.sched_point(g, tid, Pending::Start, &mut w).map(|_| ())
	}

	/// the interpreter announces that a user panic of `tid` starts / has finished unwinding
	pub fn set_unwinding(&self, tid: Tid, on: bool) {
		let mut g = self.lock();
		g.unwinding.retain(|t| *t != tid);
		if on {
			g.unwinding.push(tid);
		}
	}

	pub fn is_unwinding(&self, tid: Tid) -> bool {
		self.lock().unwinding.contains(&tid)
	}

	pub fn yield_point(&self, tid: Tid) -> Result<(), ()> {
		let g = self.lock();
		if g.sched.is_none() || g.abort {
			return if g.abort { Err(()) } else { Ok(()) };
		}
		let mut w = false;
		self.sched_point(g, tid, Pending::Yield, &mut w).map(|_| ())
	}

	pub fn thread_finish(&self, tid: Tid) {
		let mut g = self.lock();
		if g.sched.is_none() {
			return;
		}
		g.sched.as_mut().unwrap().status[tid as usize] = ThStatus::Finished;
		self.pick_next(&mut g, None);
		drop(g);
		self.cv.notify_all();
	}
}
